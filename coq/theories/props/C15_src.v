(* C15, source tie -- the leaf validators of common.py, translated from the working tree on every run (Gen/Source.v, by
   harness/translate_src.py) and interpreted by PySrc.run_prog, compute exactly what the hand-written model computes; hence the
   grammar theorems of C15.v hold of the text of the source itself.  Property theorems only.
   These obligations are part of the tie between model and code: when one of them breaks the model and its theorems are intact,
   and the check searches for a failing input as it does for a moved source pin. *)
From Coq Require Import String.
From CCT Require Import Prelude Hex Num Time Formats PySrc.
From CCT.Gen Require Source.
From CCT.proofs Require Import HexFacts SigFacts SourceFacts SourceSigFacts JsonFacts.
From CCT.proofs Require SourceJsonFacts SourceLoadFacts.
From CCT Require JsonParse.

(* the functions below are in the translated program, and its call graph has no cycle (so run_prog reaches every callee) *)
Theorem C15src_translated :
  forallb (fun f => existsb (String.eqb f) (map fst Source.program))
    ["is_hex_string"; "checkformat_hex_string"; "is_hex_signature"; "is_hex_key"; "checkformat_hex_key"; "is_gpg_fingerprint";
     "checkformat_gpg_fingerprint"; "checkformat_string"; "checkformat_byteslike"; "checkformat_expiration_distance";
     "is_signature"; "checkformat_signature"; "is_gpg_signature"; "checkformat_gpg_signature"; "checkformat_any_signature"]%string = true
  /\ Source.call_graph_acyclic = true.
Proof. split; reflexivity. Qed.

(* predicates: the interpreted source returns the model's boolean, for every value *)
Theorem C15src_is_hex_string : forall v, run_prog Source.program "is_hex_string" [v] = Ok (VBool (is_hex_string v)).
Proof. exact src_is_hex_string. Qed.
Theorem C15src_is_hex_signature : forall v, run_prog Source.program "is_hex_signature" [v] = Ok (VBool (is_hex_signature v)).
Proof. exact src_is_hex_signature. Qed.
Theorem C15src_is_hex_key : forall v, run_prog Source.program "is_hex_key" [v] = Ok (VBool (is_hex_key v)).
Proof. exact src_is_hex_key. Qed.
Theorem C15src_is_gpg_fingerprint : forall v, run_prog Source.program "is_gpg_fingerprint" [v] = Ok (VBool (is_gpg_fingerprint v)).
Proof. exact src_is_gpg_fingerprint. Qed.

(* raising forms: the interpreted source returns its argument where the model says Ok, raises the model's exception otherwise,
   and never leaves the modelled fragment (no Unmodelled: the model's answer is always Ok or Err on these) *)
Theorem C15src_checkformat_hex_string : forall v,
  run_prog Source.program "checkformat_hex_string" [v] = returns_arg (checkformat_hex_string v) v.
Proof. exact src_checkformat_hex_string. Qed.
Theorem C15src_checkformat_hex_key : forall v,
  run_prog Source.program "checkformat_hex_key" [v] = returns_arg (checkformat_hex_key v) v.
Proof. exact src_checkformat_hex_key. Qed.
Theorem C15src_checkformat_gpg_fingerprint : forall v,
  run_prog Source.program "checkformat_gpg_fingerprint" [v] = returns_arg (checkformat_gpg_fingerprint v) v.
Proof. exact src_checkformat_gpg_fingerprint. Qed.
Theorem C15src_checkformat_string : forall v,
  run_prog Source.program "checkformat_string" [v] = returns_arg (checkformat_string v) v.
Proof. exact src_checkformat_string. Qed.
Theorem C15src_checkformat_byteslike : forall v,
  run_prog Source.program "checkformat_byteslike" [v] = returns_arg (checkformat_byteslike v) v.
Proof. exact src_checkformat_byteslike. Qed.
Theorem C15src_checkformat_expiration_distance : forall v,
  run_prog Source.program "checkformat_expiration_distance" [v] = returns_arg (checkformat_expiration_distance v) v.
Proof. exact src_checkformat_expiration_distance. Qed.

(* the grammars of C15, stated of the source text: the function as written in common.py returns True exactly on n lower-case
   hexadecimal ASCII characters, for every value of the universe *)
Theorem C15src_hex_key_grammar : forall v,
  run_prog Source.program "is_hex_key" [v] = Ok (VBool true)
  <-> exists s, v = VStr s /\ length s = 64%nat /\ forallb is_lower_hex s = true.
Proof. exact src_hex_key_grammar. Qed.
Theorem C15src_hex_signature_grammar : forall v,
  run_prog Source.program "is_hex_signature" [v] = Ok (VBool true)
  <-> exists s, v = VStr s /\ length s = 128%nat /\ forallb is_lower_hex s = true.
Proof. exact src_hex_signature_grammar. Qed.
Theorem C15src_gpg_fingerprint_grammar : forall v,
  run_prog Source.program "is_gpg_fingerprint" [v] = Ok (VBool true)
  <-> exists s, v = VStr s /\ length s = 40%nat /\ forallb is_lower_hex s = true.
Proof. exact src_gpg_fingerprint_grammar. Qed.

(* signature entries.  checkformat_gpg_signature sorts the keys of the dict: for a dict of two or more entries whose keys are not
   all str, sorted() is outside the model (outside_sorted; CPython may raise TypeError there, which the predicate forms catch), and
   interpreter and model both answer Unmodelled; everywhere else -- in particular on every JSON value -- the interpreted source is
   the model *)
Theorem C15src_checkformat_gpg_signature : forall v,
  run_prog Source.program "checkformat_gpg_signature" [v] = returns_arg (checkformat_gpg_signature v) v.
Proof. exact src_checkformat_gpg_signature. Qed.
Theorem C15src_is_gpg_signature : forall v, outside_sorted v = false ->
  run_prog Source.program "is_gpg_signature" [v] = Ok (VBool (is_gpg_signature v)).
Proof. exact src_is_gpg_signature. Qed.
Theorem C15src_checkformat_signature : forall v, outside_sorted v = false ->
  run_prog Source.program "checkformat_signature" [v] = returns_arg (checkformat_signature v) v.
Proof. exact src_checkformat_signature. Qed.
Theorem C15src_is_signature : forall v, outside_sorted v = false ->
  run_prog Source.program "is_signature" [v] = Ok (VBool (is_signature v)).
Proof. exact src_is_signature. Qed.
Theorem C15src_checkformat_any_signature : forall v, outside_sorted v = false ->
  run_prog Source.program "checkformat_any_signature" [v] = returns_arg (checkformat_any_signature v) v.
Proof. exact src_checkformat_any_signature. Qed.
Theorem C15src_outside_sorted_meaning : forall v,
  outside_sorted v = true <-> exists m, v = VDict m /\ all_str_keys m = false /\ (2 <= length m)%nat.
Proof. exact outside_sorted_meaning. Qed.

(* every value of the JSON domain (what json.load returns) is inside: the signature-entry theorems hold of all of them *)
Theorem C15src_json_values_inside : forall v, jdom v = true -> outside_sorted v = false.
Proof. exact SourceJsonFacts.jdom_inside_sorted. Qed.

Theorem C15src_loaded_values_inside : forall b v, JsonParse.load_file b = Ok v -> outside_sorted v = false.
Proof. exact SourceLoadFacts.loaded_inside_sorted. Qed.

(* signature entries as the text of common.py decides them: precisely the raw or the OpenPGP shape *)
Theorem C15src_signature_entry_grammar : forall v, outside_sorted v = false ->
  (run_prog Source.program "is_signature" [v] = Ok (VBool true) <-> raw_shape v \/ gpg_shape v).
Proof. exact src_signature_entry_grammar. Qed.
Theorem C15src_gpg_signature_entry_grammar : forall v, outside_sorted v = false ->
  (run_prog Source.program "is_gpg_signature" [v] = Ok (VBool true) <-> gpg_shape v).
Proof. exact src_gpg_signature_entry_grammar. Qed.

(* non-vacuity: the interpreter really runs the text -- a key, the same key in upper case, the same characters as bytes *)
Example C15src_witness :
  run_prog Source.program "is_hex_key" [VStr (repeat 97 64)] = Ok (VBool true)
  /\ run_prog Source.program "is_hex_key" [VStr (repeat 65 64)] = Ok (VBool false)
  /\ run_prog Source.program "checkformat_hex_key" [VBytes (repeat 97 64)] = Err TypeError
  /\ run_prog Source.program "checkformat_hex_key" [VStr (repeat 97 63)] = Err ValueError
  /\ run_prog Source.program "checkformat_gpg_fingerprint" [VInt 5] = Err TypeError
  /\ run_prog Source.program "is_signature" [VDict [(VStr (U"signature"), VStr (repeat 97 128))]] = Ok (VBool true)
  /\ run_prog Source.program "is_gpg_signature"
        [VDict [(VStr (U"signature"), VStr (repeat 97 128)); (VStr (U"other_headers"), VStr (U"04ff"))]] = Ok (VBool true)
  /\ run_prog Source.program "is_signature"
        [VDict [(VStr (U"signature"), VStr (repeat 97 128)); (VStr (U"extra"), VInt 1)]] = Ok (VBool false)
  /\ outside_sorted (VDict [(VStr (U"signature"), VStr (repeat 97 128)); (VStr (U"other_headers"), VStr (U"04ff"))]) = false.
Proof. repeat split; vm_compute; reflexivity. Qed.

Print Assumptions C15src_translated.
Print Assumptions C15src_is_hex_string.
Print Assumptions C15src_is_hex_signature.
Print Assumptions C15src_is_hex_key.
Print Assumptions C15src_is_gpg_fingerprint.
Print Assumptions C15src_checkformat_hex_string.
Print Assumptions C15src_checkformat_hex_key.
Print Assumptions C15src_checkformat_gpg_fingerprint.
Print Assumptions C15src_checkformat_string.
Print Assumptions C15src_checkformat_byteslike.
Print Assumptions C15src_checkformat_expiration_distance.
Print Assumptions C15src_checkformat_gpg_signature.
Print Assumptions C15src_is_gpg_signature.
Print Assumptions C15src_checkformat_signature.
Print Assumptions C15src_is_signature.
Print Assumptions C15src_checkformat_any_signature.
Print Assumptions C15src_outside_sorted_meaning.
Print Assumptions C15src_json_values_inside.
Print Assumptions C15src_loaded_values_inside.
Print Assumptions C15src_signature_entry_grammar.
Print Assumptions C15src_gpg_signature_entry_grammar.
Print Assumptions C15src_hex_key_grammar.
Print Assumptions C15src_hex_signature_grammar.
Print Assumptions C15src_gpg_fingerprint_grammar.
Print Assumptions C15src_witness.

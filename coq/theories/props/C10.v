(* C10 -- OpenPGP-wrapped signatures follow RFC 4880 v4 and interoperate with GnuPG. Property theorems only.
   ed_verify and sha256 are universally quantified; GnuPG is outside the model (its signatures are exercised by
   the correspondence through the library's own GPG signing path). *)
From CCT Require Import Prelude Hex Num Time Formats Json Auth Signing Gpg.
From CCT.Gen Require Params.
From CCT.proofs Require Import HexFacts SigFacts AuthFacts SignableFacts SchemaFacts FamilyFacts SigningFacts GpgFacts.
Open Scope N_scope.

(* what the source hashes and verifies, re-read from the AST on every run:
   data, headers, the constant 04 ff, pack(">I", len(headers)); SHA-256; the digest is what is verified *)
Theorem C10_framing_frozen :
  Params.gpg_frame_steps = Some [Params.FData; Params.FHeaders; Params.FConst [4; 255]; Params.FPackLen (U">I")]
  /\ Params.gpg_hash = Some (U"SHA256") /\ Params.gpg_verifies_digest = true.
Proof. repeat split; reflexivity. Qed.

Theorem C10_verify_gpg_iff : forall ed_verify sha256 v k data,
  verify_gpg_signature ed_verify sha256 v k data = Ok tt <->
  exists m oh sg h d hb sb msg,
    v = VDict m /\ gpg_shape v /\ k = VStr h /\ lower_hex_len 64 h
    /\ (data = VBytes d \/ data = VBytearray d)
    /\ dget m (U"other_headers") = Some (VStr oh) /\ fromhex oh = Some hb
    /\ dget m (U"signature") = Some (VStr sg) /\ fromhex sg = Some sb /\ length sb = 64%nat
    /\ frame d hb = Ok msg /\ ed_verify (keyb h) (sha256 msg) sb = true.
Proof. exact verify_gpg_iff. Qed.

(* frame = payload || headers || 04 ff || 32-bit big-endian header length, exactly RFC 4880 5.2.4 for version 4 *)
Theorem C10_frame_meaning : forall d h l, be32 (N.of_nat (length h)) = Ok l -> frame d h = Ok (d ++ h ++ [4; 255] ++ l).
Proof. intros d h l E. unfold frame. rewrite E. reflexivity. Qed.

Theorem C10_be32_meaning : forall n l, be32 n = Ok l ->
  exists b0 b1 b2 b3, l = [b0; b1; b2; b3] /\ b0 < 256 /\ b1 < 256 /\ b2 < 256 /\ b3 < 256
                      /\ n = 16777216 * b0 + 65536 * b1 + 256 * b2 + b3.
Proof. exact be32_value. Qed.

Theorem C10_frame_matches_rfc4880 : forall document hashed_part,
  frame document hashed_part = rfc4880_v4_hash_input document hashed_part.
Proof. exact frame_matches_rfc4880. Qed.

Theorem C10_frame_injective : forall d h d' h' m, frame d h = Ok m -> frame d' h' = Ok m -> d = d' /\ h = h'.
Proof. exact frame_injective. Qed.

Theorem C10_any_change_changes_message : forall d h d' h' m m',
  frame d h = Ok m -> frame d' h' = Ok m' -> (d <> d' \/ h <> h') -> m <> m'.
Proof. exact any_change_changes_message. Qed.

Theorem C10_failed_check_is_invalid_signature : forall ed_verify sha256 v h d m oh sg hb sb msg,
  v = VDict m -> gpg_shape v -> lower_hex_len 64 h ->
  dget m (U"other_headers") = Some (VStr oh) -> fromhex oh = Some hb ->
  dget m (U"signature") = Some (VStr sg) -> fromhex sg = Some sb ->
  frame d hb = Ok msg -> ed_verify (keyb h) (sha256 msg) sb = false ->
  verify_gpg_signature ed_verify sha256 v (VStr h) (VBytes d) = Err InvalidSignature.
Proof. exact verify_gpg_invalid. Qed.

(* a detached signature returned by the GPG signer, transcribed by the library's GPG signing path into an entry
   filed under the key's raw public value, is well formed and counts in OpenPGP mode *)
Theorem C10_transcription_accepted : forall ed_verify sha256 signable fpr kid hp sg q sd data msg e' kl,
  is_signable signable = true -> subscript signable (U"signed") = Ok sd -> canonserialize sd = Ok data ->
  lower_hex_len 40 fpr ->
  wf_bytes hp -> hp <> [] -> wf_bytes sg -> length sg = 64%nat -> wf_bytes q -> length q = 32%nat ->
  frame data hp = Ok msg -> ed_verify q (sha256 msg) sg = true ->
  In (VStr (hexlify q)) kl ->
  sign_root_metadata_dict_via_gpg (created_sig kid hp sg) (VStr (hexlify q)) signable (VStr fpr) = Ok e' ->
  exists sm entry,
    subscript e' (U"signatures") = Ok (VDict sm) /\ subscript e' (U"signed") = Ok sd
    /\ dget sm (hexlify q) = Some entry
    /\ checkformat_gpg_signature entry = Ok tt
    /\ entry_counts ed_verify sha256 true kl data (VStr (hexlify q), entry) = Ok true.
Proof. exact transcription_accepted. Qed.

(* non-vacuity: the framing of a 3-byte payload with a 2-byte header; a 2^32-byte header length is refused *)
Example C10_witness :
  frame [1; 2; 3] [9; 8] = Ok [1; 2; 3; 9; 8; 4; 255; 0; 0; 0; 2]
  /\ be32 4294967296 = Err StructError /\ be32 4294967295 = Ok [255; 255; 255; 255]
  /\ be32 16909060 = Ok [1; 2; 3; 4].
Proof. vm_compute. repeat split. Qed.

Print Assumptions C10_framing_frozen.
Print Assumptions C10_verify_gpg_iff.
Print Assumptions C10_frame_meaning.
Print Assumptions C10_be32_meaning.
Print Assumptions C10_frame_matches_rfc4880.
Print Assumptions C10_frame_injective.
Print Assumptions C10_any_change_changes_message.
Print Assumptions C10_failed_check_is_invalid_signature.
Print Assumptions C10_transcription_accepted.
Print Assumptions C10_witness.

(* C10 -- OpenPGP-wrapped signatures follow RFC 4880 v4 and interoperate with GnuPG. Property theorems only.
   ed_verify and sha256 are universally quantified; GnuPG is outside the model (its signatures are exercised by
   the correspondence through the library's own GPG signing path). *)
From CCT Require Import Prelude Hex Num Time Formats Json Auth Signing Gpg.
From CCT.Gen Require Pins.
From CCT.Gen Require Params.
From CCT.proofs Require Import HexFacts SigFacts AuthFacts SignableFacts SchemaFacts FamilyFacts SigningFacts GpgFacts.
Open Scope N_scope.

(* what the source hashes and verifies, re-read from the AST on every run:
   data, headers, the constant 04 ff, pack(">I", len(headers)); SHA-256; the digest is what is verified *)
Theorem C10_framing_frozen :
  Params.gpg_frame_steps = Some [Params.FData; Params.FHeaders; Params.FConst [4; 255]; Params.FPackLen (U">I")]
  /\ Params.gpg_hash = Some (U"SHA256") /\ Params.gpg_verifies_digest = true.
Proof. repeat split; reflexivity. Qed.

Theorem C10_verify_gpg_iff : forall ed_verify sha256 v k data,
  verify_gpg_signature ed_verify sha256 v k data = Ok tt <->
  exists m oh sg h d hb sb msg,
    v = VDict m /\ gpg_shape v /\ k = VStr h /\ lower_hex_len 64 h
    /\ (data = VBytes d \/ data = VBytearray d)
    /\ dget m (U"other_headers") = Some (VStr oh) /\ fromhex oh = Some hb
    /\ dget m (U"signature") = Some (VStr sg) /\ fromhex sg = Some sb /\ length sb = 64%nat
    /\ frame d hb = Ok msg /\ ed_verify (keyb h) (sha256 msg) sb = true.
Proof. exact verify_gpg_iff. Qed.

(* frame = payload || headers || 04 ff || 32-bit big-endian header length, exactly RFC 4880 5.2.4 for version 4 *)
Theorem C10_frame_meaning : forall d h l, be32 (N.of_nat (length h)) = Ok l -> frame d h = Ok (d ++ h ++ [4; 255] ++ l).
Proof. intros d h l E. unfold frame. rewrite E. reflexivity. Qed.

Theorem C10_be32_meaning : forall n l, be32 n = Ok l ->
  exists b0 b1 b2 b3, l = [b0; b1; b2; b3] /\ b0 < 256 /\ b1 < 256 /\ b2 < 256 /\ b3 < 256
                      /\ n = 16777216 * b0 + 65536 * b1 + 256 * b2 + b3.
Proof. exact be32_value. Qed.

Theorem C10_frame_matches_rfc4880 : forall document hashed_part,
  frame document hashed_part = rfc4880_v4_hash_input document hashed_part.
Proof. exact frame_matches_rfc4880. Qed.

Theorem C10_frame_injective : forall d h d' h' m, frame d h = Ok m -> frame d' h' = Ok m -> d = d' /\ h = h'.
Proof. exact frame_injective. Qed.

Theorem C10_any_change_changes_message : forall d h d' h' m m',
  frame d h = Ok m -> frame d' h' = Ok m' -> (d <> d' \/ h <> h') -> m <> m'.
Proof. exact any_change_changes_message. Qed.

Theorem C10_failed_check_is_invalid_signature : forall ed_verify sha256 v h d m oh sg hb sb msg,
  v = VDict m -> gpg_shape v -> lower_hex_len 64 h ->
  dget m (U"other_headers") = Some (VStr oh) -> fromhex oh = Some hb ->
  dget m (U"signature") = Some (VStr sg) -> fromhex sg = Some sb ->
  frame d hb = Ok msg -> ed_verify (keyb h) (sha256 msg) sb = false ->
  verify_gpg_signature ed_verify sha256 v (VStr h) (VBytes d) = Err InvalidSignature.
Proof. exact verify_gpg_invalid. Qed.

(* a detached signature returned by the GPG signer, transcribed by the library's GPG signing path into an entry
   filed under the key's raw public value, is well formed and counts in OpenPGP mode *)
Theorem C10_transcription_accepted : forall ed_verify sha256 signable fpr kid hp sg q sd data msg e' kl,
  is_signable signable = true -> subscript signable (U"signed") = Ok sd -> canonserialize sd = Ok data ->
  lower_hex_len 40 fpr ->
  wf_bytes hp -> hp <> [] -> wf_bytes sg -> length sg = 64%nat -> wf_bytes q -> length q = 32%nat ->
  frame data hp = Ok msg -> ed_verify q (sha256 msg) sg = true ->
  In (VStr (hexlify q)) kl ->
  sign_root_metadata_dict_via_gpg (created_sig kid hp sg) (VStr (hexlify q)) signable (VStr fpr) = Ok e' ->
  exists sm entry,
    subscript e' (U"signatures") = Ok (VDict sm) /\ subscript e' (U"signed") = Ok sd
    /\ dget sm (hexlify q) = Some entry
    /\ checkformat_gpg_signature entry = Ok tt
    /\ entry_counts ed_verify sha256 true kl data (VStr (hexlify q), entry) = Ok true.
Proof. exact transcription_accepted. Qed.

(* non-vacuity: the framing of a 3-byte payload with a 2-byte header; a 2^32-byte header length is refused *)
Example C10_witness :
  frame [1; 2; 3] [9; 8] = Ok [1; 2; 3; 9; 8; 4; 255; 0; 0; 0; 2]
  /\ be32 4294967296 = Err StructError /\ be32 4294967295 = Ok [255; 255; 255; 255]
  /\ be32 16909060 = Ok [1; 2; 3; 4].
Proof. vm_compute. repeat split. Qed.

(* BEGIN SOURCE PINS -- written by harness/mkpins.py; the list is what Gen/Pins.v held for the tree the model was validated against *)
(* the functions of the package this property depends on (call-graph closure of its entry points), each with the fingerprint of its
   logic (AST without docstrings, annotations, messages, local names): the model and the correspondence runs were validated against
   exactly these; a change of logic in any of them breaks this obligation and the check then searches for a failing input *)
Theorem C10_source_pinned : CCT.Gen.Pins.pinned_C10 =
  [(U"authentication._ascii", U"5f6fc6aad21f14d47c4f");
   (U"authentication.verify_gpg_signature", U"ccbe2bc800d02410d16b");
   (U"authentication.verify_signable", U"1bd56f9b4f5e7bcd88d9");
   (U"authentication.verify_signature", U"7e0a2d567df7e9f0cdd4");
   (U"common.MixinKey.from_hex", U"a6e4e81c0b16461490a5");
   (U"common.PrivateKey.from_bytes", U"2cb488fc935b61f65bba");
   (U"common.PublicKey.from_bytes", U"a439db0d070397bc2b47");
   (U"common.canonserialize", U"64fc1dee1d7349d7a920");
   (U"common.checkformat_byteslike", U"1c9da61d15ff3a1a9f97");
   (U"common.checkformat_gpg_fingerprint", U"86e3bb7e4431fb481dc5");
   (U"common.checkformat_gpg_signature", U"a3c5515ffb8c9f6183ba");
   (U"common.checkformat_hex_key", U"625afdf8f56eb4c97143");
   (U"common.checkformat_hex_string", U"eac17f8be3d488d4b8a0");
   (U"common.checkformat_key", U"d3466826154e389f099e");
   (U"common.checkformat_signature", U"d544854022da28dcc399");
   (U"common.is_gpg_signature", U"f236e9c50126a7909e84");
   (U"common.is_hex_key", U"63c7822022cd24f926e2");
   (U"common.is_hex_signature", U"433f44075f931ec629d6");
   (U"common.is_hex_string", U"35e6d253e0c21ac09fca");
   (U"common.is_signable", U"6932517519189d75eb93");
   (U"common.is_signature", U"cc04b1fcfd687d0beea7");
   (U"root_signing._check_sslib_available", U"d8315639482190c4a365");
   (U"root_signing.fetch_keyval_from_gpg", U"c6c0dcd9c0176460544f");
   (U"root_signing.sign_root_metadata_dict_via_gpg", U"9c9b61ae611802885662");
   (U"root_signing.sign_via_gpg", U"0253075166ded99ab505")].
Proof. reflexivity. Qed.
(* END SOURCE PINS *)

Print Assumptions C10_framing_frozen.
Print Assumptions C10_verify_gpg_iff.
Print Assumptions C10_frame_meaning.
Print Assumptions C10_be32_meaning.
Print Assumptions C10_frame_matches_rfc4880.
Print Assumptions C10_frame_injective.
Print Assumptions C10_any_change_changes_message.
Print Assumptions C10_failed_check_is_invalid_signature.
Print Assumptions C10_transcription_accepted.
Print Assumptions C10_witness.
Print Assumptions C10_source_pinned.

(* C07 -- canonical serialization: deterministic, order-independent, injective, frozen. Property theorems only.
   Domain (jdom, proofs/JsonFacts.v): the values a JSON parser returns -- null, booleans, arbitrary-size integers,
   float tokens of the JSON grammar (all floats: the token is what repr() prints), strings over code points
   < 0x110000 with no high surrogate immediately followed by a low surrogate (isolated lone surrogates allowed),
   lists, dicts with pairwise distinct str keys.  parse is the model of json.loads (JsonParse.v); canon sorts every
   dict by key: two values are the same JSON value iff their canonical forms are equal. *)
From CCT Require Import Prelude Hex Json JsonParse.
From CCT.Gen Require Pins.
From CCT.Gen Require Params.
From CCT.proofs Require Import HexFacts SigFacts FamilyFacts JsonLexFacts SortFacts JsonFacts.
From Coq Require Import Permutation.
Open Scope N_scope.

(* the published format: json.dumps(obj, indent=2, sort_keys=True) with the default ensure_ascii / allow_nan /
   separators, encoded as UTF-8 -- the keyword arguments are re-read from the AST on every run *)
Theorem C07_format_frozen :
  Params.dumps_kwargs = Some (Some 2%Z, true, true, true, true, Some (U"utf-8")).
Proof. reflexivity. Qed.

Theorem C07_domain_meaning : forall v,
  jdom v = match v with
           | VNone | VBool _ | VInt _ => true
           | VFloat r => float_token r
           | VStr s => forallb (fun c => c <? 1114112) s && no_pairb s
           | VList l => forallb jdom l
           | VDict m => forallb (fun kv => match fst kv with VStr k => wf_str k | _ => false end && jdom (snd kv)) m
                        && keys_nodupb (map (fun kv => key_text (fst kv)) m)
           | _ => false
           end.
Proof. destruct v; reflexivity. Qed.

(* total, and pure ASCII: a function of the value alone (a Gallina function has no other input) *)
Theorem C07_ser_total : forall v, jdom v = true -> exists b, canonserialize v = Ok b /\ Forall (fun c => c < 128) b.
Proof. exact ser_total. Qed.

(* parsing the canonical bytes gives the value back *)
Theorem C07_parse_ser : forall v b, jdom v = true -> canonserialize v = Ok b -> parse b = Some (canon v).
Proof. exact parse_ser. Qed.

(* two payloads that differ as JSON values never share their canonical bytes, and conversely *)
Theorem C07_same_bytes_iff_same_value : forall v v' b, jdom v = true -> jdom v' = true ->
  canonserialize v = Ok b -> (canonserialize v' = Ok b <-> canon v = canon v').
Proof.
  intros v v' b Hd Hd' Hs. split.
  - intros Hs'. eapply ser_injective; eauto.
  - intros E. unfold canonserialize. rewrite <- (ser_order_independent v v' Hd Hd' E). exact Hs.
Qed.

(* "the same JSON value": insertion order of dict entries is irrelevant at every depth *)
Theorem C07_canon_forgets_insertion_order : forall m m',
  Permutation m m' -> keys_nodupb (map (fun kv => key_text (fst kv)) m) = true -> canon (VDict m) = canon (VDict m').
Proof. exact canon_perm. Qed.

Theorem C07_canon_congruence :
  (forall m m', Forall2 (fun kv kv' => key_text (fst kv) = key_text (fst kv') /\ canon (snd kv) = canon (snd kv')) m m' ->
                canon (VDict m) = canon (VDict m'))
  /\ (forall l l', Forall2 (fun x x' => canon x = canon x') l l' -> canon (VList l) = canon (VList l')).
Proof. split; [exact canon_dict_congr|exact canon_list_congr]. Qed.

Theorem C07_order_independent : forall v v', jdom v = true -> jdom v' = true -> canon v = canon v' ->
  canonserialize v = canonserialize v'.
Proof. exact ser_order_independent. Qed.

(* fixpoint of parse-then-serialize *)
Theorem C07_ser_fixpoint : forall v b, jdom v = true -> canonserialize v = Ok b ->
  exists v', parse b = Some v' /\ canonserialize v' = Ok b /\ jdom v' = true.
Proof. exact ser_fixpoint. Qed.

(* the boundary of the domain, in the property's own words ("isolated" lone surrogates): a high surrogate followed
   by a low surrogate serializes exactly like the character the pair encodes *)
Theorem C07_surrogate_pair_collision :
  exists s s', s <> s' /\ canonserialize (VStr s) = canonserialize (VStr s').
Proof. exists [55357; 56832], [128512]. split; [discriminate|reflexivity]. Qed.

(* literal outputs of the published format *)
Example C07_format_examples :
  canonserialize (VDict [(VStr (U"b"), VList [VInt 1; VNone; VBool true]); (VStr (U"a"), VDict [(VStr (U"z"), VStr (U"x")); (VStr (U"Z"), VDict [])]); (VStr (U"c"), VList [])])
    = Ok (U"{
  ""a"": {
    ""Z"": {},
    ""z"": ""x""
  },
  ""b"": [
    1,
    null,
    true
  ],
  ""c"": []
}")
  /\ canonserialize (VStr [127; 31; 233; 128512; 55296; 34; 92; 10]) = Ok (U"""\u007f\u001f\u00e9\ud83d\ude00\ud800\""\\\n""")
  /\ canonserialize (VList [VFloat (U"1e+16"); VFloat (U"-0.0"); VFloat (U"Infinity"); VFloat (U"NaN"); VInt (-12)]) = Ok (U"[
  1e+16,
  -0.0,
  Infinity,
  NaN,
  -12
]")
  /\ parse (U"{""k"": [1, 2.50, ""\ud83d\ude00"", {""k"": null, ""k"": true}]}")
     = Some (VDict [(VStr (U"k"), VList [VInt 1; VFloat (U"2.50"); VStr [128512]; VDict [(VStr (U"k"), VBool true)]])])
  /\ parse (U"[1,]") = None /\ parse (U"01") = None /\ parse (U"""\u+123""") = None /\ parse (U"[1] x") = None.
Proof. vm_compute. repeat split. Qed.

(* BEGIN SOURCE PINS -- written by harness/mkpins.py; the list is what Gen/Pins.v held for the tree the model was validated against *)
(* the functions of the package this property depends on (call-graph closure of its entry points), each with the fingerprint of its
   logic (AST without docstrings, annotations, messages, local names): the model and the correspondence runs were validated against
   exactly these; a change of logic in any of them breaks this obligation and the check then searches for a failing input *)
Theorem C07_source_pinned : CCT.Gen.Pins.pinned_C07 =
  [(U"authentication._ascii", U"5f6fc6aad21f14d47c4f");
   (U"authentication.verify_gpg_signature", U"ccbe2bc800d02410d16b");
   (U"authentication.verify_signable", U"1bd56f9b4f5e7bcd88d9");
   (U"authentication.verify_signature", U"7e0a2d567df7e9f0cdd4");
   (U"common.MixinKey.from_hex", U"a6e4e81c0b16461490a5");
   (U"common.MixinKey.to_hex", U"fcdaef7ed3d503ba84df");
   (U"common.PrivateKey.from_bytes", U"2cb488fc935b61f65bba");
   (U"common.PrivateKey.to_bytes", U"c9564ea6ce46886b972b");
   (U"common.PublicKey.from_bytes", U"a439db0d070397bc2b47");
   (U"common.PublicKey.to_bytes", U"1167c2299d20a5c711f2");
   (U"common.canonserialize", U"64fc1dee1d7349d7a920");
   (U"common.checkformat_byteslike", U"1c9da61d15ff3a1a9f97");
   (U"common.checkformat_gpg_fingerprint", U"86e3bb7e4431fb481dc5");
   (U"common.checkformat_gpg_signature", U"a3c5515ffb8c9f6183ba");
   (U"common.checkformat_hex_key", U"625afdf8f56eb4c97143");
   (U"common.checkformat_hex_string", U"eac17f8be3d488d4b8a0");
   (U"common.checkformat_key", U"d3466826154e389f099e");
   (U"common.checkformat_signable", U"dbb8b00a3a3727e018da");
   (U"common.checkformat_signature", U"d544854022da28dcc399");
   (U"common.is_gpg_signature", U"f236e9c50126a7909e84");
   (U"common.is_hex_key", U"63c7822022cd24f926e2");
   (U"common.is_hex_signature", U"433f44075f931ec629d6");
   (U"common.is_hex_string", U"35e6d253e0c21ac09fca");
   (U"common.is_signable", U"6932517519189d75eb93");
   (U"common.is_signature", U"cc04b1fcfd687d0beea7");
   (U"common.load_metadata_from_file", U"f65eb5087b9ad786f4ff");
   (U"common.write_metadata_to_file", U"7e7340650f276f577b2b");
   (U"signing.serialize_and_sign", U"b494a1c320877296ecf6");
   (U"signing.sign_signable", U"752f8700cfb513a4c6ba");
   (U"signing.wrap_as_signable", U"aa9e0c33a445b2f5590b")].
Proof. reflexivity. Qed.
(* END SOURCE PINS *)

Print Assumptions C07_format_frozen.
Print Assumptions C07_domain_meaning.
Print Assumptions C07_ser_total.
Print Assumptions C07_parse_ser.
Print Assumptions C07_same_bytes_iff_same_value.
Print Assumptions C07_canon_forgets_insertion_order.
Print Assumptions C07_canon_congruence.
Print Assumptions C07_order_independent.
Print Assumptions C07_ser_fixpoint.
Print Assumptions C07_surrogate_pair_collision.
Print Assumptions C07_format_examples.
Print Assumptions C07_source_pinned.

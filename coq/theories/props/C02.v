(* C02 -- threshold completeness. Property theorems only. *)
From CCT Require Import Prelude Hex Num Time Formats Json Auth.
From CCT.proofs Require Import HexFacts SigFacts AuthFacts SignableFacts.
From Coq Require Import Permutation.
Open Scope N_scope.

Theorem C02_verify_signable_complete : forall ed_verify sha256 s kl tz gpg sd data sm cs,
  is_signable s = true -> forallb is_hex_key kl = true -> (1 <= tz)%Z ->
  subscript s (U"signed") = Ok sd -> canonserialize sd = Ok data ->
  subscript s (U"signatures") = Ok (VDict sm) ->
  (py_truth gpg = true -> Forall (fun kv => entry_small (snd kv)) sm) ->
  NoDup cs -> incl cs sm -> (tz <= Z.of_nat (length cs))%Z ->
  Forall (fun kv => valid_entry ed_verify sha256 (py_truth gpg) kl data (fst kv) (snd kv)) cs ->
  verify_signable ed_verify sha256 s (VList kl) (VInt tz) gpg = Ok tt.
Proof. exact verify_signable_complete. Qed.

(* junk is skipped, never fatal: every entry, whatever it is, yields a boolean *)
Theorem C02_junk_is_skipped : forall ed_verify sha256 gpg kl data k v,
  entry_small v -> exists b, entry_counts ed_verify sha256 gpg kl data (k, v) = Ok b.
Proof. exact entry_counts_total. Qed.

Theorem C02_accept_iff_enough : forall ed_verify sha256 s kl tz gpg sd data sm,
  is_signable s = true -> forallb is_hex_key kl = true -> (1 <= tz)%Z ->
  subscript s (U"signed") = Ok sd -> canonserialize sd = Ok data ->
  subscript s (U"signatures") = Ok (VDict sm) ->
  total_on (entry_counts ed_verify sha256 (py_truth gpg) kl data) sm ->
  (verify_signable ed_verify sha256 s (VList kl) (VInt tz) gpg = Ok tt <->
   (tz <= Z.of_nat (length (filter (counts (entry_counts ed_verify sha256 (py_truth gpg) kl data)) sm)))%Z)
  /\ (verify_signable ed_verify sha256 s (VList kl) (VInt tz) gpg <> Ok tt ->
      verify_signable ed_verify sha256 s (VList kl) (VInt tz) gpg = Err SignatureError).
Proof. exact accept_iff_enough. Qed.

Theorem C02_order_independent : forall ed_verify sha256 sd sm sm' kl kl' t gpg,
  Permutation sm sm' -> Permutation kl kl' ->
  verify_signable ed_verify sha256 (VDict [(VStr (U"signatures"), VDict sm); (VStr (U"signed"), sd)]) (VList kl) t gpg = Ok tt
  <-> verify_signable ed_verify sha256 (VDict [(VStr (U"signatures"), VDict sm'); (VStr (U"signed"), sd)]) (VList kl') t gpg = Ok tt.
Proof. exact verify_signable_perm. Qed.

Print Assumptions C02_verify_signable_complete.
Print Assumptions C02_junk_is_skipped.
Print Assumptions C02_accept_iff_enough.
Print Assumptions C02_order_independent.

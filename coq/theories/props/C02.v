(* C02 -- threshold completeness. Property theorems only. *)
From CCT Require Import Prelude Hex Num Time Formats Json Auth.
From CCT.Gen Require Pins.
From CCT.proofs Require Import HexFacts SigFacts AuthFacts SignableFacts.
From Coq Require Import Permutation.
Open Scope N_scope.

Theorem C02_verify_signable_complete : forall ed_verify sha256 s kl tz gpg sd data sm cs,
  is_signable s = true -> forallb is_hex_key kl = true -> (1 <= tz)%Z ->
  subscript s (U"signed") = Ok sd -> canonserialize sd = Ok data ->
  subscript s (U"signatures") = Ok (VDict sm) ->
  (py_truth gpg = true -> Forall (fun kv => entry_small (snd kv)) sm) ->
  NoDup cs -> incl cs sm -> (tz <= Z.of_nat (length cs))%Z ->
  Forall (fun kv => valid_entry ed_verify sha256 (py_truth gpg) kl data (fst kv) (snd kv)) cs ->
  verify_signable ed_verify sha256 s (VList kl) (VInt tz) gpg = Ok tt.
Proof. exact verify_signable_complete. Qed.

(* junk is skipped, never fatal: every entry, whatever it is, yields a boolean *)
Theorem C02_junk_is_skipped : forall ed_verify sha256 gpg kl data k v,
  entry_small v -> exists b, entry_counts ed_verify sha256 gpg kl data (k, v) = Ok b.
Proof. exact entry_counts_total. Qed.

Theorem C02_accept_iff_enough : forall ed_verify sha256 s kl tz gpg sd data sm,
  is_signable s = true -> forallb is_hex_key kl = true -> (1 <= tz)%Z ->
  subscript s (U"signed") = Ok sd -> canonserialize sd = Ok data ->
  subscript s (U"signatures") = Ok (VDict sm) ->
  total_on (entry_counts ed_verify sha256 (py_truth gpg) kl data) sm ->
  (verify_signable ed_verify sha256 s (VList kl) (VInt tz) gpg = Ok tt <->
   (tz <= Z.of_nat (length (filter (counts (entry_counts ed_verify sha256 (py_truth gpg) kl data)) sm)))%Z)
  /\ (verify_signable ed_verify sha256 s (VList kl) (VInt tz) gpg <> Ok tt ->
      verify_signable ed_verify sha256 s (VList kl) (VInt tz) gpg = Err SignatureError).
Proof. exact accept_iff_enough. Qed.

Theorem C02_order_independent : forall ed_verify sha256 sd sm sm' kl kl' t gpg,
  Permutation sm sm' -> Permutation kl kl' ->
  verify_signable ed_verify sha256 (VDict [(VStr (U"signatures"), VDict sm); (VStr (U"signed"), sd)]) (VList kl) t gpg = Ok tt
  <-> verify_signable ed_verify sha256 (VDict [(VStr (U"signatures"), VDict sm'); (VStr (U"signed"), sd)]) (VList kl') t gpg = Ok tt.
Proof. exact verify_signable_perm. Qed.

(* BEGIN SOURCE PINS -- written by harness/mkpins.py; the list is what Gen/Pins.v held for the tree the model was validated against *)
(* the functions of the package this property depends on (call-graph closure of its entry points), each with the fingerprint of its
   logic (AST without docstrings, annotations, messages, local names): the model and the correspondence runs were validated against
   exactly these; a change of logic in any of them breaks this obligation and the check then searches for a failing input *)
Theorem C02_source_pinned : CCT.Gen.Pins.pinned_C02 =
  [(U"authentication._ascii", U"5f6fc6aad21f14d47c4f");
   (U"authentication.verify_gpg_signature", U"ccbe2bc800d02410d16b");
   (U"authentication.verify_signable", U"1bd56f9b4f5e7bcd88d9");
   (U"authentication.verify_signature", U"7e0a2d567df7e9f0cdd4");
   (U"common.MixinKey.from_hex", U"a6e4e81c0b16461490a5");
   (U"common.MixinKey.to_hex", U"fcdaef7ed3d503ba84df");
   (U"common.PrivateKey.from_bytes", U"2cb488fc935b61f65bba");
   (U"common.PrivateKey.to_bytes", U"c9564ea6ce46886b972b");
   (U"common.PublicKey.from_bytes", U"a439db0d070397bc2b47");
   (U"common.PublicKey.to_bytes", U"1167c2299d20a5c711f2");
   (U"common.canonserialize", U"64fc1dee1d7349d7a920");
   (U"common.checkformat_byteslike", U"1c9da61d15ff3a1a9f97");
   (U"common.checkformat_gpg_fingerprint", U"86e3bb7e4431fb481dc5");
   (U"common.checkformat_gpg_signature", U"a3c5515ffb8c9f6183ba");
   (U"common.checkformat_hex_key", U"625afdf8f56eb4c97143");
   (U"common.checkformat_hex_string", U"eac17f8be3d488d4b8a0");
   (U"common.checkformat_key", U"d3466826154e389f099e");
   (U"common.checkformat_signable", U"dbb8b00a3a3727e018da");
   (U"common.checkformat_signature", U"d544854022da28dcc399");
   (U"common.is_gpg_signature", U"f236e9c50126a7909e84");
   (U"common.is_hex_key", U"63c7822022cd24f926e2");
   (U"common.is_hex_signature", U"433f44075f931ec629d6");
   (U"common.is_hex_string", U"35e6d253e0c21ac09fca");
   (U"common.is_signable", U"6932517519189d75eb93");
   (U"common.is_signature", U"cc04b1fcfd687d0beea7");
   (U"signing.serialize_and_sign", U"b494a1c320877296ecf6");
   (U"signing.sign_signable", U"752f8700cfb513a4c6ba");
   (U"signing.wrap_as_signable", U"aa9e0c33a445b2f5590b")].
Proof. reflexivity. Qed.
(* END SOURCE PINS *)

Print Assumptions C02_verify_signable_complete.
Print Assumptions C02_junk_is_skipped.
Print Assumptions C02_accept_iff_enough.
Print Assumptions C02_order_independent.
Print Assumptions C02_source_pinned.

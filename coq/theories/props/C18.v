(* C18 -- in-place signing is all-or-nothing with respect to failures. Property theorems only.
   The skeletons (Gen/Skeleton.v) are regenerated from the current source of sign_all_in_repodata,
   write_metadata_to_file, sign_root_metadata_via_gpg, sign_root_metadata_dict_via_gpg, cli_sign_artifacts and
   cli_gpg_sign on every run; the theorems below are about ALL their traces (any number of artifacts, any branch)
   and every fault point (any prefix of a trace). *)
From Coq Require Import List Bool.
Import ListNotations.
From CCT Require Import Effects.
From CCT Require Import Prelude.
From CCT.Gen Require Pins.
From CCT.Gen Require Skeleton.
From CCT.proofs Require Import EffectFacts.

(* the general theorem: the syntactic criterion implies the two-phase shape of every trace *)
Theorem C18_criterion_sound : forall p, wfb p = true -> forall t, tr p t -> two_phase t.
Proof. exact wfb_sound. Qed.

(* every generated skeleton passes the criterion *)
Theorem C18_skeletons_pass : forallb wfb Skeleton.all_skeletons = true.
Proof. vm_compute. reflexivity. Qed.

Theorem C18_all_traces_two_phase : forall p, In p Skeleton.all_skeletons -> forall t, tr p t -> two_phase t.
Proof.
  intros p Hin. apply wfb_sound. pose proof C18_skeletons_pass as H. rewrite forallb_forall in H. auto.
Qed.

(* a failure at any point before the output phase leaves the file byte-identical *)
Theorem C18_fault_before_output_keeps_file : forall p, In p Skeleton.all_skeletons ->
  forall pre, faulted_run p pre -> existsb is_output pre = false -> file_after pre = Original.
Proof.
  intros p Hin. apply fault_before_output_keeps_file. pose proof C18_skeletons_pass as H. rewrite forallb_forall in H. auto.
Qed.

(* output is written only after every signature has been computed and the result serialized *)
Theorem C18_no_partial_output : forall p, In p Skeleton.all_skeletons ->
  forall t1 e t2, tr p (t1 ++ e :: t2) -> is_output e = true ->
  Forall (fun x => is_tail x = true) t2
  /\ (forall x, In x t2 -> x <> ESign /\ x <> ESerialize /\ x <> EValidate /\ x <> ERead /\ x <> EUnknown).
Proof.
  intros p Hin. apply no_partial_output. pose proof C18_skeletons_pass as H. rewrite forallb_forall in H. auto.
Qed.

(* the signing skeletons do sign, serialize and write (the criterion is not met vacuously):
   a complete trace of sign_all_in_repodata with two artifacts *)
Example C18_witness :
  length Skeleton.all_skeletons = 6%nat
  /\ wfb (Seq [E EOpenTrunc; E ESign; E EWrite]) = false          (* signing after the file was opened is refused *)
  /\ wfb (Seq [Loop (Seq [E ESign; E EOpenTrunc; E EWrite; E EClose])]) = false   (* writing per artifact is refused *)
  /\ wfb (Seq [E ERead; Loop (E ESign); E ESerialize; E EOpenTrunc; E EWrite; E EClose]) = true
  /\ existsb (fun p => negb (quietb p)) Skeleton.all_skeletons = true.
Proof. vm_compute. repeat split. Qed.

(* BEGIN SOURCE PINS -- written by harness/mkpins.py; the list is what Gen/Pins.v held for the tree the model was validated against *)
(* the functions of the package this property depends on (call-graph closure of its entry points), each with the fingerprint of its
   logic (AST without docstrings, annotations, messages, local names): the model and the correspondence runs were validated against
   exactly these; a change of logic in any of them breaks this obligation and the check then searches for a failing input *)
Theorem C18_source_pinned : CCT.Gen.Pins.pinned_C18 =
  [(U"cli.cli_gpg_sign", U"49733e37eccbec131603");
   (U"cli.cli_sign_artifacts", U"e5623e5eff2b90c6f506");
   (U"common.MixinKey.from_hex", U"a6e4e81c0b16461490a5");
   (U"common.MixinKey.to_hex", U"fcdaef7ed3d503ba84df");
   (U"common.PrivateKey.from_bytes", U"2cb488fc935b61f65bba");
   (U"common.PrivateKey.to_bytes", U"c9564ea6ce46886b972b");
   (U"common.PublicKey.from_bytes", U"a439db0d070397bc2b47");
   (U"common.PublicKey.to_bytes", U"1167c2299d20a5c711f2");
   (U"common.canonserialize", U"64fc1dee1d7349d7a920");
   (U"common.checkformat_byteslike", U"1c9da61d15ff3a1a9f97");
   (U"common.checkformat_gpg_fingerprint", U"86e3bb7e4431fb481dc5");
   (U"common.checkformat_gpg_signature", U"a3c5515ffb8c9f6183ba");
   (U"common.checkformat_hex_key", U"625afdf8f56eb4c97143");
   (U"common.checkformat_hex_string", U"eac17f8be3d488d4b8a0");
   (U"common.checkformat_key", U"d3466826154e389f099e");
   (U"common.checkformat_signature", U"d544854022da28dcc399");
   (U"common.checkformat_string", U"a139d0a4113d71e93d9f");
   (U"common.is_gpg_signature", U"f236e9c50126a7909e84");
   (U"common.is_hex_key", U"63c7822022cd24f926e2");
   (U"common.is_hex_signature", U"433f44075f931ec629d6");
   (U"common.is_hex_string", U"35e6d253e0c21ac09fca");
   (U"common.is_signable", U"6932517519189d75eb93");
   (U"common.load_metadata_from_file", U"f65eb5087b9ad786f4ff");
   (U"common.write_metadata_to_file", U"7e7340650f276f577b2b");
   (U"root_signing._check_sslib_available", U"d8315639482190c4a365");
   (U"root_signing.fetch_keyval_from_gpg", U"c6c0dcd9c0176460544f");
   (U"root_signing.sign_root_metadata_dict_via_gpg", U"9c9b61ae611802885662");
   (U"root_signing.sign_root_metadata_via_gpg", U"1326ee36cd0ec7f636fb");
   (U"root_signing.sign_via_gpg", U"0253075166ded99ab505");
   (U"signing.serialize_and_sign", U"b494a1c320877296ecf6");
   (U"signing.sign_all_in_repodata", U"acae37496ef25356cf28")].
Proof. reflexivity. Qed.
(* END SOURCE PINS *)

Print Assumptions C18_criterion_sound.
Print Assumptions C18_skeletons_pass.
Print Assumptions C18_all_traces_two_phase.
Print Assumptions C18_fault_before_output_keeps_file.
Print Assumptions C18_no_partial_output.
Print Assumptions C18_witness.
Print Assumptions C18_source_pinned.

(* C18 -- in-place signing is all-or-nothing with respect to failures. Property theorems only.
   The skeletons (Gen/Skeleton.v) are regenerated from the current source of sign_all_in_repodata,
   write_metadata_to_file, sign_root_metadata_via_gpg, sign_root_metadata_dict_via_gpg, cli_sign_artifacts and
   cli_gpg_sign on every run; the theorems below are about ALL their traces (any number of artifacts, any branch)
   and every fault point (any prefix of a trace). *)
From Coq Require Import List Bool.
Import ListNotations.
From CCT Require Import Effects.
From CCT.Gen Require Skeleton.
From CCT.proofs Require Import EffectFacts.

(* the general theorem: the syntactic criterion implies the two-phase shape of every trace *)
Theorem C18_criterion_sound : forall p, wfb p = true -> forall t, tr p t -> two_phase t.
Proof. exact wfb_sound. Qed.

(* every generated skeleton passes the criterion *)
Theorem C18_skeletons_pass : forallb wfb Skeleton.all_skeletons = true.
Proof. vm_compute. reflexivity. Qed.

Theorem C18_all_traces_two_phase : forall p, In p Skeleton.all_skeletons -> forall t, tr p t -> two_phase t.
Proof.
  intros p Hin. apply wfb_sound. pose proof C18_skeletons_pass as H. rewrite forallb_forall in H. auto.
Qed.

(* a failure at any point before the output phase leaves the file byte-identical *)
Theorem C18_fault_before_output_keeps_file : forall p, In p Skeleton.all_skeletons ->
  forall pre, faulted_run p pre -> existsb is_output pre = false -> file_after pre = Original.
Proof.
  intros p Hin. apply fault_before_output_keeps_file. pose proof C18_skeletons_pass as H. rewrite forallb_forall in H. auto.
Qed.

(* output is written only after every signature has been computed and the result serialized *)
Theorem C18_no_partial_output : forall p, In p Skeleton.all_skeletons ->
  forall t1 e t2, tr p (t1 ++ e :: t2) -> is_output e = true ->
  Forall (fun x => is_tail x = true) t2
  /\ (forall x, In x t2 -> x <> ESign /\ x <> ESerialize /\ x <> EValidate /\ x <> ERead /\ x <> EUnknown).
Proof.
  intros p Hin. apply no_partial_output. pose proof C18_skeletons_pass as H. rewrite forallb_forall in H. auto.
Qed.

(* the signing skeletons do sign, serialize and write (the criterion is not met vacuously):
   a complete trace of sign_all_in_repodata with two artifacts *)
Example C18_witness :
  length Skeleton.all_skeletons = 6%nat
  /\ wfb (Seq [E EOpenTrunc; E ESign; E EWrite]) = false          (* signing after the file was opened is refused *)
  /\ wfb (Seq [Loop (Seq [E ESign; E EOpenTrunc; E EWrite; E EClose])]) = false   (* writing per artifact is refused *)
  /\ wfb (Seq [E ERead; Loop (E ESign); E ESerialize; E EOpenTrunc; E EWrite; E EClose]) = true
  /\ existsb (fun p => negb (quietb p)) Skeleton.all_skeletons = true.
Proof. vm_compute. repeat split. Qed.

Print Assumptions C18_criterion_sound.
Print Assumptions C18_skeletons_pass.
Print Assumptions C18_all_traces_two_phase.
Print Assumptions C18_fault_before_output_keeps_file.
Print Assumptions C18_no_partial_output.
Print Assumptions C18_witness.

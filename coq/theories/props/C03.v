(* C03 -- root update accepted iff version + 1 and signed per old and new root rules. Property theorems only. *)
From CCT Require Import Prelude Hex Num Time Formats Json Auth.
From CCT.Gen Require Params.
From CCT.proofs Require Import HexFacts SigFacts AuthFacts SignableFacts DelegationFacts RootFacts.
Open Scope N_scope.

(* the source compares  int(trusted version) + 1  with the new version using != and raises *)
Theorem C03_successor_test_frozen : Params.version_test = Some (U"NotEq", 1%Z, true, true).
Proof. reflexivity. Qed.

Theorem C03_verify_root_iff : forall ed_verify sha256 t u,
  verify_root ed_verify sha256 t u = Ok tt <->
  checkformat_delegating_metadata t = Ok tt /\ checkformat_delegating_metadata u = Ok tt /\
  exists tv uv tz,
    view t = Ok tv /\ view u = Ok uv
    /\ rv_type tv = VStr (U"root") /\ rv_type uv = VStr (U"root")
    /\ int_value (rv_version tv) = Some tz /\ int_value (rv_version uv) = Some (tz + 1)%Z
    /\ verify_signable ed_verify sha256 u (rv_keys tv) (rv_threshold tv) (VBool true) = Ok tt
    /\ verify_signable ed_verify sha256 u (rv_keys uv) (rv_threshold uv) (VBool true) = Ok tt.
Proof. exact verify_root_iff. Qed.

Theorem C03_version_mismatch_error : forall ed_verify sha256 t u tv uv tz,
  checkformat_delegating_metadata t = Ok tt -> checkformat_delegating_metadata u = Ok tt ->
  view t = Ok tv -> view u = Ok uv ->
  rv_type tv = VStr (U"root") -> rv_type uv = VStr (U"root") ->
  int_value (rv_version tv) = Some tz -> int_value (rv_version uv) <> Some (tz + 1)%Z ->
  verify_root ed_verify sha256 t u = Err MetadataVerificationError.
Proof. exact version_mismatch_error. Qed.

(* whatever the offered metadata declares, acceptance needs threshold valid OpenPGP entries under the TRUSTED root's keys *)
Theorem C03_root_sound : forall ed_verify sha256 t u,
  verify_root ed_verify sha256 t u = Ok tt ->
  exists tv kl tz sd data sm cs,
    view t = Ok tv /\ rv_keys tv = VList kl /\ threshold_value (rv_threshold tv) = Some tz
    /\ subscript u (U"signed") = Ok sd /\ canonserialize sd = Ok data
    /\ subscript u (U"signatures") = Ok (VDict sm)
    /\ incl cs sm /\ (NoDup (map fst sm) -> NoDup (map fst cs)) /\ (1 <= tz <= Z.of_nat (length cs))%Z
    /\ Forall (fun kv => valid_entry ed_verify sha256 true kl data (fst kv) (snd kv)) cs.
Proof. exact root_sound. Qed.

Theorem C03_trusted_rule_is_a_projection : forall ed_verify sha256 t t' u,
  checkformat_delegating_metadata t = Ok tt -> checkformat_delegating_metadata t' = Ok tt -> view t = view t' ->
  (verify_root ed_verify sha256 t u = Ok tt <-> verify_root ed_verify sha256 t' u = Ok tt).
Proof. exact trusted_rule_is_a_projection. Qed.

Print Assumptions C03_successor_test_frozen.
Print Assumptions C03_verify_root_iff.
Print Assumptions C03_version_mismatch_error.
Print Assumptions C03_root_sound.
Print Assumptions C03_trusted_rule_is_a_projection.

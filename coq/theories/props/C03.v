(* C03 -- root update accepted iff version + 1 and signed per old and new root rules. Property theorems only. *)
From CCT Require Import Prelude Hex Num Time Formats Json Auth.
From CCT.Gen Require Pins.
From CCT.Gen Require Params.
From CCT.proofs Require Import HexFacts SigFacts AuthFacts SignableFacts DelegationFacts RootFacts.
Open Scope N_scope.

(* the source compares  int(trusted version) + 1  with the new version using != and raises *)
Theorem C03_successor_test_frozen : Params.version_test = Some (U"NotEq", 1%Z, true, true).
Proof. reflexivity. Qed.

Theorem C03_verify_root_iff : forall ed_verify sha256 t u,
  verify_root ed_verify sha256 t u = Ok tt <->
  checkformat_delegating_metadata t = Ok tt /\ checkformat_delegating_metadata u = Ok tt /\
  exists tv uv tz,
    view t = Ok tv /\ view u = Ok uv
    /\ rv_type tv = VStr (U"root") /\ rv_type uv = VStr (U"root")
    /\ int_value (rv_version tv) = Some tz /\ int_value (rv_version uv) = Some (tz + 1)%Z
    /\ verify_signable ed_verify sha256 u (rv_keys tv) (rv_threshold tv) (VBool true) = Ok tt
    /\ verify_signable ed_verify sha256 u (rv_keys uv) (rv_threshold uv) (VBool true) = Ok tt.
Proof. exact verify_root_iff. Qed.

Theorem C03_version_mismatch_error : forall ed_verify sha256 t u tv uv tz,
  checkformat_delegating_metadata t = Ok tt -> checkformat_delegating_metadata u = Ok tt ->
  view t = Ok tv -> view u = Ok uv ->
  rv_type tv = VStr (U"root") -> rv_type uv = VStr (U"root") ->
  int_value (rv_version tv) = Some tz -> int_value (rv_version uv) <> Some (tz + 1)%Z ->
  verify_root ed_verify sha256 t u = Err MetadataVerificationError.
Proof. exact version_mismatch_error. Qed.

(* whatever the offered metadata declares, acceptance needs threshold valid OpenPGP entries under the TRUSTED root's keys *)
Theorem C03_root_sound : forall ed_verify sha256 t u,
  verify_root ed_verify sha256 t u = Ok tt ->
  exists tv kl tz sd data sm cs,
    view t = Ok tv /\ rv_keys tv = VList kl /\ threshold_value (rv_threshold tv) = Some tz
    /\ subscript u (U"signed") = Ok sd /\ canonserialize sd = Ok data
    /\ subscript u (U"signatures") = Ok (VDict sm)
    /\ incl cs sm /\ (NoDup (map fst sm) -> NoDup (map fst cs)) /\ (1 <= tz <= Z.of_nat (length cs))%Z
    /\ Forall (fun kv => valid_entry ed_verify sha256 true kl data (fst kv) (snd kv)) cs.
Proof. exact root_sound. Qed.

Theorem C03_trusted_rule_is_a_projection : forall ed_verify sha256 t t' u,
  checkformat_delegating_metadata t = Ok tt -> checkformat_delegating_metadata t' = Ok tt -> view t = view t' ->
  (verify_root ed_verify sha256 t u = Ok tt <-> verify_root ed_verify sha256 t' u = Ok tt).
Proof. exact trusted_rule_is_a_projection. Qed.

(* BEGIN SOURCE PINS -- written by harness/mkpins.py; the list is what Gen/Pins.v held for the tree the model was validated against *)
(* the functions of the package this property depends on (call-graph closure of its entry points), each with the fingerprint of its
   logic (AST without docstrings, annotations, messages, local names): the model and the correspondence runs were validated against
   exactly these; a change of logic in any of them breaks this obligation and the check then searches for a failing input *)
Theorem C03_source_pinned : CCT.Gen.Pins.pinned_C03 =
  [(U"authentication._ascii", U"5f6fc6aad21f14d47c4f");
   (U"authentication.verify_gpg_signature", U"ccbe2bc800d02410d16b");
   (U"authentication.verify_root", U"6692242951185dc7604b");
   (U"authentication.verify_signable", U"1bd56f9b4f5e7bcd88d9");
   (U"authentication.verify_signature", U"7e0a2d567df7e9f0cdd4");
   (U"common.MixinKey.from_hex", U"a6e4e81c0b16461490a5");
   (U"common.PrivateKey.from_bytes", U"2cb488fc935b61f65bba");
   (U"common.PublicKey.from_bytes", U"a439db0d070397bc2b47");
   (U"common.canonserialize", U"64fc1dee1d7349d7a920");
   (U"common.checkformat_any_signature", U"82ba0ed515a770fad8a9");
   (U"common.checkformat_byteslike", U"1c9da61d15ff3a1a9f97");
   (U"common.checkformat_delegating_metadata", U"b013c9fa5677f3b3f637");
   (U"common.checkformat_delegation", U"25fc9c6692b07cdca131");
   (U"common.checkformat_delegations", U"d6a7d445f5f827a1471c");
   (U"common.checkformat_gpg_fingerprint", U"86e3bb7e4431fb481dc5");
   (U"common.checkformat_gpg_signature", U"a3c5515ffb8c9f6183ba");
   (U"common.checkformat_hex_key", U"625afdf8f56eb4c97143");
   (U"common.checkformat_hex_string", U"eac17f8be3d488d4b8a0");
   (U"common.checkformat_key", U"d3466826154e389f099e");
   (U"common.checkformat_list_of_hex_keys", U"4c9121b74cf062a7e2fd");
   (U"common.checkformat_natural_int", U"14f9984b8b7ef6014787");
   (U"common.checkformat_signable", U"dbb8b00a3a3727e018da");
   (U"common.checkformat_signature", U"d544854022da28dcc399");
   (U"common.checkformat_string", U"a139d0a4113d71e93d9f");
   (U"common.checkformat_utc_isoformat", U"6fed4a2332e7258f7147");
   (U"common.is_gpg_signature", U"f236e9c50126a7909e84");
   (U"common.is_hex_key", U"63c7822022cd24f926e2");
   (U"common.is_hex_signature", U"433f44075f931ec629d6");
   (U"common.is_hex_string", U"35e6d253e0c21ac09fca");
   (U"common.is_signable", U"6932517519189d75eb93");
   (U"common.is_signature", U"cc04b1fcfd687d0beea7")].
Proof. reflexivity. Qed.
(* END SOURCE PINS *)

Print Assumptions C03_successor_test_frozen.
Print Assumptions C03_verify_root_iff.
Print Assumptions C03_version_mismatch_error.
Print Assumptions C03_root_sound.
Print Assumptions C03_trusted_rule_is_a_projection.
Print Assumptions C03_source_pinned.

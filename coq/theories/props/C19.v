(* C19 -- key material round-trips losslessly and matches RFC 8032. Property theorems only.
   Key objects are VPub (public bytes) / VPriv (seed); ed25519 itself (ed_pub, ed_sign) is a parameter whose
   agreement with RFC 8032 is established by the correspondence (library = pyca = a transcription of RFC 8032
   section 6, on random seeds/messages and the section 7.1 vectors), not by a theorem. *)
From CCT Require Import Prelude Hex Num Time Formats Json Auth Signing Keys.
From CCT.Gen Require Pins.
From CCT.Gen Require Params.
From CCT.proofs Require Import HexFacts SigFacts AuthFacts SchemaFacts FamilyFacts SigningFacts KeyFacts.
From CCT Require Ed25519.
From CCT.proofs Require Ed25519Facts.
Open Scope N_scope.

(* bytes <-> key object, for both classes *)
Theorem C19_bytes_roundtrip : forall c b, key32 b ->
  key_from_bytes c (VBytes b) = Ok (mk_key c b) /\ key_to_bytes c (mk_key c b) = Ok (VBytes b).
Proof. exact from_to_bytes. Qed.

(* hex -> key -> hex is the identity on canonical hex; key -> hex -> key is the identity *)
Theorem C19_hex_roundtrip : forall c h, lower_hex_len 64 h ->
  exists b, key_from_hex c (VStr h) = Ok (mk_key c b) /\ key_to_hex c (mk_key c b) = Ok (VStr h) /\ length b = 32%nat.
Proof. exact to_hex_from_hex. Qed.

Theorem C19_key_hex_key : forall c b, key32 b ->
  key_to_hex c (mk_key c b) = Ok (VStr (hexlify b)) /\ key_from_hex c (VStr (hexlify b)) = Ok (mk_key c b).
Proof. exact from_hex_to_hex. Qed.

(* inputs of wrong length, case or type are rejected, with an argument error *)
Theorem C19_from_hex_iff : forall c v k,
  key_from_hex c v = Ok k <-> exists h b, v = VStr h /\ lower_hex_len 64 h /\ fromhex h = Some b /\ k = mk_key c b.
Proof. exact from_hex_iff. Qed.

Theorem C19_from_bytes_iff : forall c v k,
  key_from_bytes c v = Ok k <->
  exists b, length b = 32%nat /\ k = mk_key c b /\ (v = VBytes b \/ (c = KPriv /\ v = VBytearray b)).
Proof. exact from_bytes_iff. Qed.

Theorem C19_malformed_is_argument_error : forall c v, fam f_tv (key_from_hex c v) /\ fam f_tv (key_from_bytes c v).
Proof. intros. split; [apply from_hex_family|apply from_bytes_family]. Qed.

(* equivalence: reflexive, symmetric, decided by the key bytes, false across kinds, TypeError for a non-key *)
Theorem C19_equivalence : forall c b1 b2,
  key_is_equivalent_to c (mk_key c b1) (mk_key c b1) = Ok true
  /\ key_is_equivalent_to c (mk_key c b1) (mk_key c b2) = Ok (ustr_eqb b1 b2)
  /\ key_is_equivalent_to c (mk_key c b1) (mk_key c b2) = key_is_equivalent_to c (mk_key c b2) (mk_key c b1).
Proof. intros. split; [apply equivalent_refl|]. split; [apply equivalent_iff|apply equivalent_sym]. Qed.

Theorem C19_equivalence_across_kinds : forall c k1 k2,
  is_key k2 = true -> kclass_eqb (kind_of k1) (kind_of k2) = false -> key_is_equivalent_to c k1 k2 = Ok false.
Proof. exact equivalent_kinds_differ. Qed.

Theorem C19_equivalence_needs_key : forall c k1 k2, is_key k2 = false -> key_is_equivalent_to c k1 k2 = Err TypeError.
Proof. exact equivalent_needs_key. Qed.

(* key files *)
Theorem C19_keyfile_roundtrip : forall (ed_pub : bytes -> bytes), (forall seed, length (ed_pub seed) = 32%nat /\ wf_bytes (ed_pub seed)) ->
  forall seed files, length seed = 32%nat -> write_keyfiles ed_pub (VPriv seed) = Ok files ->
  load_keyfiles files = Ok (VPriv seed, VPub (ed_pub seed))
  /\ key_is_equivalent_to KPriv (VPriv seed) (VPriv seed) = Ok true
  /\ public_key_of ed_pub (VPriv seed) = Ok (VPub (ed_pub seed)).
Proof. exact keyfile_roundtrip. Qed.

(* what the library asks of ed25519: the signature over exactly the canonical bytes, filed under hexlify(pub) *)
Theorem C19_lib_signs_pure_ed25519 : forall ed_sign v seed data,
  canonserialize v = Ok data ->
  serialize_and_sign ed_sign v (VPriv seed) = Ok (VStr (hexlify (ed_sign seed data))).
Proof. exact lib_signs_pure_ed25519. Qed.

Theorem C19_hex_filed_is_pub : forall (ed_pub : bytes -> bytes), (forall seed, length (ed_pub seed) = 32%nat /\ wf_bytes (ed_pub seed)) ->
  forall seed, lower_hex_len 64 (hexlify (ed_pub seed)) /\ fromhex (hexlify (ed_pub seed)) = Some (ed_pub seed).
Proof.
  intros ed_pub H seed. destruct (H seed) as [L W]. split; [apply hexlify_key; auto|apply fromhex_hexlify; auto].
Qed.

Example C19_witness :
  key_from_hex KPub (VStr (repeat 97 64)) = Ok (VPub (repeat 170 32))
  /\ key_to_hex KPub (VPub (repeat 170 32)) = Ok (VStr (repeat 97 64))
  /\ key_from_hex KPub (VStr (repeat 65 64)) = Err ValueError
  /\ key_from_hex KPriv (VStr (repeat 97 62)) = Err ValueError
  /\ key_from_bytes KPub (VBytes (repeat 1 31)) = Err ValueError
  /\ key_from_bytes KPub (VStr (repeat 97 32)) = Err TypeError
  /\ key_is_equivalent_to KPub (VPub (repeat 1 32)) (VPriv (repeat 1 32)) = Ok false.
Proof. vm_compute. repeat split. Qed.

(* ---- the Gallina specification of RFC 8032 Ed25519 (theories/Ed25519.v: SHA-512, field and curve arithmetic, key derivation,
   signing, verification, transcribed from section 6 of the RFC) *)
(* for ALL seeds and messages: a public key is 32 bytes, a signature 64 -- the premises the signing theorems ask of the primitive *)
Theorem C19_rfc8032_sizes : forall seed msg,
  (length (Ed25519.public_key seed) = 32%nat /\ wf_bytes (Ed25519.public_key seed))
  /\ (length (Ed25519.sign seed msg) = 64%nat /\ wf_bytes (Ed25519.sign seed msg)).
Proof. intros. split; [apply Ed25519Facts.public_key_ok|apply Ed25519Facts.sign_ok]. Qed.

(* its field arithmetic uses 2^255 = 19 (mod p) instead of a division: correct on canonical representatives *)
Theorem C19_rfc8032_field_ops : forall a b, (0 <= a < Ed25519.fp)%Z -> (0 <= b < Ed25519.fp)%Z ->
  Ed25519.fmul a b = (a * b mod Ed25519.fp)%Z /\ Ed25519.fadd a b = ((a + b) mod Ed25519.fp)%Z /\ Ed25519.fsub a b = ((a - b) mod Ed25519.fp)%Z.
Proof. intros a b Ha Hb. split; [apply Ed25519Facts.fmul_spec; auto|]. split; [apply Ed25519Facts.fadd_spec; auto|apply Ed25519Facts.fsub_spec; auto]. Qed.

(* its literal constants (d, sqrt(-1), the base point) satisfy their defining equations *)
Theorem C19_rfc8032_constants :
  Ed25519.cd = Ed25519.fmul (Ed25519.fp - 121665)%Z (Ed25519.inv_fp 121666)
  /\ Ed25519.sqrt_m1 = Ed25519.pow_fp 2 ((Ed25519.fp - 1) / 4)%Z
  /\ Ed25519.g_y = Ed25519.fmul 4 (Ed25519.inv_fp 5)
  /\ Ed25519.recover_x Ed25519.g_y false = Some Ed25519.g_x
  /\ Ed25519.base = (Ed25519.g_x, Ed25519.g_y, 1%Z, Ed25519.fmul Ed25519.g_x Ed25519.g_y).
Proof. exact Ed25519Facts.constants_defined. Qed.

(* its point addition (canonical representatives, fast reduction) is the RFC reference code's point_add modulo p, coordinate by coordinate,
   and keeps coordinates canonical *)
Theorem C19_rfc8032_point_add : forall P Q, Ed25519Facts.canonp P -> Ed25519Facts.canonp Q ->
  Ed25519Facts.canonp (Ed25519.point_add P Q) /\ Ed25519Facts.eqp (Ed25519.point_add P Q) (Ed25519Facts.point_add_rfc P Q).
Proof. exact Ed25519Facts.point_add_spec. Qed.

(* verification refuses wrong lengths and a non-canonical S (no malleability by adding the group order), RFC 8032 5.1.7 *)
Theorem C19_rfc8032_verify_refuses : forall pub msg sg, Ed25519.verify pub msg sg = true ->
  length pub = 32%nat /\ length sg = 64%nat /\ (Ed25519.le_num (skipn 32 sg) < Ed25519.fq)%Z.
Proof.
  intros pub msg sg H. destruct (Ed25519Facts.verify_needs_lengths pub msg sg H) as [H1 H2].
  split; [exact H1|]. split; [exact H2|]. exact (Ed25519Facts.verify_needs_canonical_s pub msg sg H).
Qed.

(* the key-file and filing theorems above, instantiated with it: no premise about the primitive is left *)
Theorem C19_keyfile_roundtrip_rfc8032 : forall seed files, length seed = 32%nat ->
  write_keyfiles Ed25519.public_key (VPriv seed) = Ok files ->
  load_keyfiles files = Ok (VPriv seed, VPub (Ed25519.public_key seed))
  /\ public_key_of Ed25519.public_key (VPriv seed) = Ok (VPub (Ed25519.public_key seed)).
Proof.
  intros seed files L W. destruct (keyfile_roundtrip Ed25519.public_key Ed25519Facts.public_key_ok seed files L W) as (H1 & _ & H3). auto.
Qed.

Theorem C19_hex_filed_is_pub_rfc8032 : forall seed,
  lower_hex_len 64 (hexlify (Ed25519.public_key seed)) /\ fromhex (hexlify (Ed25519.public_key seed)) = Some (Ed25519.public_key seed).
Proof. intros seed. exact (C19_hex_filed_is_pub Ed25519.public_key Ed25519Facts.public_key_ok seed). Qed.

(* the test vectors of RFC 8032 section 7.1 (TEST 1, 2, 3), and the NIST SHA-512 vector for "abc", evaluated by the kernel's VM *)
(* the test vectors of RFC 8032 section 7.1 (TEST 1, 2, 3) and a SHA-512 vector hold for it by evaluation in the kernel's VM:
   proofs/Ed25519Vectors.v (vectors_hold), checked by coqc as an obligation of this property but kept out of this file's dependency
   cone because coqchk, which has no VM, cannot re-run that evaluation in reasonable time *)

(* BEGIN SOURCE PINS -- written by harness/mkpins.py; the list is what Gen/Pins.v held for the tree the model was validated against *)
(* the functions of the package this property depends on (call-graph closure of its entry points), each with the fingerprint of its
   logic (AST without docstrings, annotations, messages, local names): the model and the correspondence runs were validated against
   exactly these; a change of logic in any of them breaks this obligation and the check then searches for a failing input *)
Theorem C19_source_pinned : CCT.Gen.Pins.pinned_C19 =
  [(U"common.MixinKey.from_hex", U"a6e4e81c0b16461490a5");
   (U"common.MixinKey.is_equivalent_to", U"5700e1899e36ca2341bb");
   (U"common.MixinKey.to_hex", U"fcdaef7ed3d503ba84df");
   (U"common.PrivateKey.from_bytes", U"2cb488fc935b61f65bba");
   (U"common.PrivateKey.to_bytes", U"c9564ea6ce46886b972b");
   (U"common.PublicKey.from_bytes", U"a439db0d070397bc2b47");
   (U"common.PublicKey.to_bytes", U"1167c2299d20a5c711f2");
   (U"common.canonserialize", U"64fc1dee1d7349d7a920");
   (U"common.checkformat_byteslike", U"1c9da61d15ff3a1a9f97");
   (U"common.checkformat_gpg_fingerprint", U"86e3bb7e4431fb481dc5");
   (U"common.checkformat_gpg_signature", U"a3c5515ffb8c9f6183ba");
   (U"common.checkformat_hex_key", U"625afdf8f56eb4c97143");
   (U"common.checkformat_hex_string", U"eac17f8be3d488d4b8a0");
   (U"common.checkformat_key", U"d3466826154e389f099e");
   (U"common.checkformat_signable", U"dbb8b00a3a3727e018da");
   (U"common.checkformat_signature", U"d544854022da28dcc399");
   (U"common.is_gpg_signature", U"f236e9c50126a7909e84");
   (U"common.is_hex_signature", U"433f44075f931ec629d6");
   (U"common.is_hex_string", U"35e6d253e0c21ac09fca");
   (U"common.is_signable", U"6932517519189d75eb93");
   (U"common.keyfiles_to_bytes", U"96ed1e86a62aee3958cf");
   (U"common.keyfiles_to_keys", U"84cb11f022dcc5fd0923");
   (U"metadata_construction.gen_and_write_keys", U"cf49f6783359093fe5b8");
   (U"metadata_construction.gen_keys", U"c6a0faf684f393ba9bac");
   (U"signing.serialize_and_sign", U"b494a1c320877296ecf6");
   (U"signing.sign_signable", U"752f8700cfb513a4c6ba")].
Proof. reflexivity. Qed.
(* END SOURCE PINS *)

Print Assumptions C19_bytes_roundtrip.
Print Assumptions C19_hex_roundtrip.
Print Assumptions C19_key_hex_key.
Print Assumptions C19_from_hex_iff.
Print Assumptions C19_from_bytes_iff.
Print Assumptions C19_malformed_is_argument_error.
Print Assumptions C19_equivalence.
Print Assumptions C19_equivalence_across_kinds.
Print Assumptions C19_equivalence_needs_key.
Print Assumptions C19_keyfile_roundtrip.
Print Assumptions C19_lib_signs_pure_ed25519.
Print Assumptions C19_hex_filed_is_pub.
Print Assumptions C19_witness.
Print Assumptions C19_source_pinned.
Print Assumptions C19_rfc8032_sizes.
Print Assumptions C19_rfc8032_field_ops.
Print Assumptions C19_rfc8032_constants.
Print Assumptions C19_rfc8032_point_add.
Print Assumptions C19_rfc8032_verify_refuses.
Print Assumptions C19_keyfile_roundtrip_rfc8032.
Print Assumptions C19_hex_filed_is_pub_rfc8032.

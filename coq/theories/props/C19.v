(* C19 -- key material round-trips losslessly and matches RFC 8032. Property theorems only.
   Key objects are VPub (public bytes) / VPriv (seed); ed25519 itself (ed_pub, ed_sign) is a parameter whose
   agreement with RFC 8032 is established by the correspondence (library = pyca = a transcription of RFC 8032
   section 6, on random seeds/messages and the section 7.1 vectors), not by a theorem. *)
From CCT Require Import Prelude Hex Num Time Formats Json Auth Signing Keys.
From CCT.Gen Require Params.
From CCT.proofs Require Import HexFacts SigFacts AuthFacts SchemaFacts FamilyFacts SigningFacts KeyFacts.
Open Scope N_scope.

(* bytes <-> key object, for both classes *)
Theorem C19_bytes_roundtrip : forall c b, key32 b ->
  key_from_bytes c (VBytes b) = Ok (mk_key c b) /\ key_to_bytes c (mk_key c b) = Ok (VBytes b).
Proof. exact from_to_bytes. Qed.

(* hex -> key -> hex is the identity on canonical hex; key -> hex -> key is the identity *)
Theorem C19_hex_roundtrip : forall c h, lower_hex_len 64 h ->
  exists b, key_from_hex c (VStr h) = Ok (mk_key c b) /\ key_to_hex c (mk_key c b) = Ok (VStr h) /\ length b = 32%nat.
Proof. exact to_hex_from_hex. Qed.

Theorem C19_key_hex_key : forall c b, key32 b ->
  key_to_hex c (mk_key c b) = Ok (VStr (hexlify b)) /\ key_from_hex c (VStr (hexlify b)) = Ok (mk_key c b).
Proof. exact from_hex_to_hex. Qed.

(* inputs of wrong length, case or type are rejected, with an argument error *)
Theorem C19_from_hex_iff : forall c v k,
  key_from_hex c v = Ok k <-> exists h b, v = VStr h /\ lower_hex_len 64 h /\ fromhex h = Some b /\ k = mk_key c b.
Proof. exact from_hex_iff. Qed.

Theorem C19_from_bytes_iff : forall c v k,
  key_from_bytes c v = Ok k <->
  exists b, length b = 32%nat /\ k = mk_key c b /\ (v = VBytes b \/ (c = KPriv /\ v = VBytearray b)).
Proof. exact from_bytes_iff. Qed.

Theorem C19_malformed_is_argument_error : forall c v, fam f_tv (key_from_hex c v) /\ fam f_tv (key_from_bytes c v).
Proof. intros. split; [apply from_hex_family|apply from_bytes_family]. Qed.

(* equivalence: reflexive, symmetric, decided by the key bytes, false across kinds, TypeError for a non-key *)
Theorem C19_equivalence : forall c b1 b2,
  key_is_equivalent_to c (mk_key c b1) (mk_key c b1) = Ok true
  /\ key_is_equivalent_to c (mk_key c b1) (mk_key c b2) = Ok (ustr_eqb b1 b2)
  /\ key_is_equivalent_to c (mk_key c b1) (mk_key c b2) = key_is_equivalent_to c (mk_key c b2) (mk_key c b1).
Proof. intros. split; [apply equivalent_refl|]. split; [apply equivalent_iff|apply equivalent_sym]. Qed.

Theorem C19_equivalence_across_kinds : forall c k1 k2,
  is_key k2 = true -> kclass_eqb (kind_of k1) (kind_of k2) = false -> key_is_equivalent_to c k1 k2 = Ok false.
Proof. exact equivalent_kinds_differ. Qed.

Theorem C19_equivalence_needs_key : forall c k1 k2, is_key k2 = false -> key_is_equivalent_to c k1 k2 = Err TypeError.
Proof. exact equivalent_needs_key. Qed.

(* key files *)
Theorem C19_keyfile_roundtrip : forall (ed_pub : bytes -> bytes), (forall seed, length (ed_pub seed) = 32%nat /\ wf_bytes (ed_pub seed)) ->
  forall seed files, length seed = 32%nat -> write_keyfiles ed_pub (VPriv seed) = Ok files ->
  load_keyfiles files = Ok (VPriv seed, VPub (ed_pub seed))
  /\ key_is_equivalent_to KPriv (VPriv seed) (VPriv seed) = Ok true
  /\ public_key_of ed_pub (VPriv seed) = Ok (VPub (ed_pub seed)).
Proof. exact keyfile_roundtrip. Qed.

(* what the library asks of ed25519: the signature over exactly the canonical bytes, filed under hexlify(pub) *)
Theorem C19_lib_signs_pure_ed25519 : forall ed_sign v seed data,
  canonserialize v = Ok data ->
  serialize_and_sign ed_sign v (VPriv seed) = Ok (VStr (hexlify (ed_sign seed data))).
Proof. exact lib_signs_pure_ed25519. Qed.

Theorem C19_hex_filed_is_pub : forall (ed_pub : bytes -> bytes), (forall seed, length (ed_pub seed) = 32%nat /\ wf_bytes (ed_pub seed)) ->
  forall seed, lower_hex_len 64 (hexlify (ed_pub seed)) /\ fromhex (hexlify (ed_pub seed)) = Some (ed_pub seed).
Proof.
  intros ed_pub H seed. destruct (H seed) as [L W]. split; [apply hexlify_key; auto|apply fromhex_hexlify; auto].
Qed.

Example C19_witness :
  key_from_hex KPub (VStr (repeat 97 64)) = Ok (VPub (repeat 170 32))
  /\ key_to_hex KPub (VPub (repeat 170 32)) = Ok (VStr (repeat 97 64))
  /\ key_from_hex KPub (VStr (repeat 65 64)) = Err ValueError
  /\ key_from_hex KPriv (VStr (repeat 97 62)) = Err ValueError
  /\ key_from_bytes KPub (VBytes (repeat 1 31)) = Err ValueError
  /\ key_from_bytes KPub (VStr (repeat 97 32)) = Err TypeError
  /\ key_is_equivalent_to KPub (VPub (repeat 1 32)) (VPriv (repeat 1 32)) = Ok false.
Proof. vm_compute. repeat split. Qed.

Print Assumptions C19_bytes_roundtrip.
Print Assumptions C19_hex_roundtrip.
Print Assumptions C19_key_hex_key.
Print Assumptions C19_from_hex_iff.
Print Assumptions C19_from_bytes_iff.
Print Assumptions C19_malformed_is_argument_error.
Print Assumptions C19_equivalence.
Print Assumptions C19_equivalence_across_kinds.
Print Assumptions C19_equivalence_needs_key.
Print Assumptions C19_keyfile_roundtrip.
Print Assumptions C19_lib_signs_pure_ed25519.
Print Assumptions C19_hex_filed_is_pub.
Print Assumptions C19_witness.

(* C13, source tie -- fail-closed behaviour stated of the validators AS WRITTEN in common.py: translated from the working tree on every
   run (Gen/Source.v, by harness/translate_src.py), interpreted by PySrc.run_prog.  Property theorems only.
   The interpreter distinguishes every exception class the package can raise (KeyError, AttributeError, AssertionError, OverflowError
   ... are values of its result type) and has an explicit outcome for leaving the modelled fragment; the theorems say that on the
   stated inputs none of these arises.  Tie obligations (see props/C15_src.v). *)
From Coq Require Import String.
From CCT Require Import Prelude Hex Num Time Formats PySrc.
From CCT.Gen Require Source.
From CCT.proofs Require Import JsonFacts SourceFacts SourceSigFacts SourceNumFacts SourceDmFacts SourceFamFacts.

Theorem C13src_three_way_meaning : forall r ok, three_way r ok <-> (r = Ok ok \/ r = Err TypeError \/ r = Err ValueError).
Proof. intros. reflexivity. Qed.

(* predicate forms never raise, for every value *)
Theorem C13src_predicates_total : forall v,
  (exists b, run_prog Source.program "is_hex_string" [v] = Ok (VBool b))
  /\ (exists b, run_prog Source.program "is_hex_signature" [v] = Ok (VBool b))
  /\ (exists b, run_prog Source.program "is_hex_key" [v] = Ok (VBool b))
  /\ (exists b, run_prog Source.program "is_gpg_fingerprint" [v] = Ok (VBool b)).
Proof. exact src_predicates_total. Qed.

Theorem C13src_entry_predicates_total : forall v, outside_sorted v = false ->
  (exists b, run_prog Source.program "is_signature" [v] = Ok (VBool b))
  /\ (exists b, run_prog Source.program "is_gpg_signature" [v] = Ok (VBool b)).
Proof. exact src_entry_predicates_total. Qed.

(* raising forms: the argument back, TypeError or ValueError -- for every value *)
Theorem C13src_raisers_three_way : forall v,
  three_way (run_prog Source.program "checkformat_hex_string" [v]) v
  /\ three_way (run_prog Source.program "checkformat_hex_key" [v]) v
  /\ three_way (run_prog Source.program "checkformat_gpg_fingerprint" [v]) v.
Proof. exact src_raisers_three_way. Qed.

Theorem C13src_entry_raisers_three_way : forall v, outside_sorted v = false ->
  three_way (run_prog Source.program "checkformat_signature" [v]) v
  /\ three_way (run_prog Source.program "checkformat_gpg_signature" [v]) v.
Proof. exact src_entry_raisers_three_way. Qed.

(* the delegating-metadata checker on every JSON value whose version, if any, is not text: None, TypeError or ValueError; in
   particular no KeyError from a missing field, no AssertionError, no OverflowError from int() of an infinite float *)
Theorem C13src_checker_three_way : forall v, jdom v = true ->
  (forall c ve, subscript v (U"signed") = Ok c -> subscript c (U"version") = Ok ve -> not_text ve = true) ->
  three_way (run_prog Source.program "checkformat_delegating_metadata" [v]) VNone.
Proof. exact src_checker_three_way. Qed.

(* non-vacuity: the interpreter does produce other exceptions when the text asks for them -- int() of an infinite float raises
   OverflowError inside checkformat_natural_int, where the handler turns it into ValueError; a missing field is a ValueError, not a KeyError *)
Example C13src_witness :
  call_builtin "int" [VFloat (U"Infinity")] = Err OverflowError
  /\ run_prog Source.program "checkformat_natural_int" [VFloat (U"Infinity")] = Err ValueError
  /\ run_prog Source.program "checkformat_delegating_metadata" [VDict [(VStr (U"signatures"), VDict []); (VStr (U"signed"), VDict [])]] = Err ValueError
  /\ run_prog Source.program "checkformat_delegating_metadata" [VDict [(VStr (U"signatures"), VDict []); (VStr (U"signed"), VInt 5)]] = Err TypeError.
Proof. repeat split; vm_compute; reflexivity. Qed.

Print Assumptions C13src_three_way_meaning.
Print Assumptions C13src_predicates_total.
Print Assumptions C13src_entry_predicates_total.
Print Assumptions C13src_raisers_three_way.
Print Assumptions C13src_entry_raisers_three_way.
Print Assumptions C13src_checker_three_way.
Print Assumptions C13src_witness.

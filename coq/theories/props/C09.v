(* C09 -- sign-then-verify round trip, signer binding, determinism, order independence.
   Property theorems only. ed25519 is a parameter: ed_pub / ed_sign / ed_verify are universally quantified
   functions; the premises name exactly what each theorem uses of RFC 8032 (sizes and byte range of the
   outputs; correctness: a signature made with a seed verifies under its public key; ideal binding for the
   last theorem only). *)
From CCT Require Import Prelude Hex Num Time Formats Json Auth Signing.
From CCT.Gen Require Pins.
From CCT.Gen Require Params.
From CCT.proofs Require Import HexFacts SigFacts AuthFacts SignableFacts DelegationFacts SchemaFacts SigningFacts.
Open Scope N_scope.

Definition ed_sizes (ed_pub : bytes -> bytes) (ed_sign : bytes -> bytes -> bytes) : Prop :=
  (forall seed, length (ed_pub seed) = 32%nat /\ wf_bytes (ed_pub seed))
  /\ (forall seed m, length (ed_sign seed m) = 64%nat /\ wf_bytes (ed_sign seed m)).

Theorem C09_wrap_payload_unchanged : forall v e,
  wrap_as_signable v = Ok e -> e = mk_env [] v /\ is_signable e = true.
Proof. exact wrap_payload_unchanged. Qed.

Theorem C09_wrap_iff_serializable_type : forall v,
  (exists e, wrap_as_signable v = Ok e) <-> type_in v Params.serializable_types = true.
Proof. exact wrap_iff. Qed.

(* signing = setting exactly the signer's entry to the signature over the canonical bytes of the payload *)
Theorem C09_sign_signable_spec : forall ed_pub ed_sign, ed_sizes ed_pub ed_sign -> forall e seed e',
  sign_signable ed_pub ed_sign e (VPriv seed) = Ok e' <->
  exists m sm sd data,
    e = VDict m /\ two_fields m (U"signatures") (U"signed") (VDict sm) sd
    /\ type_in sd Params.serializable_types = true /\ canonserialize sd = Ok data
    /\ e' = VDict (dset m (U"signatures") (VDict (dset sm (hexlify (ed_pub seed)) (sig_dict (VStr (hexlify (ed_sign seed data))))))).
Proof. intros ? ? [H1 H2]. exact (sign_signable_spec ed_pub ed_sign H2). Qed.

Theorem C09_sign_frame : forall ed_pub ed_sign, ed_sizes ed_pub ed_sign -> forall e seed e',
  sign_signable ed_pub ed_sign e (VPriv seed) = Ok e' ->
  exists sm sd data sm',
    subscript e (U"signatures") = Ok (VDict sm) /\ subscript e (U"signed") = Ok sd
    /\ canonserialize sd = Ok data
    /\ subscript e' (U"signed") = Ok sd /\ subscript e' (U"signatures") = Ok (VDict sm')
    /\ is_signable e' = true
    /\ dget sm' (hexlify (ed_pub seed)) = Some (sig_dict (VStr (hexlify (ed_sign seed data))))
    /\ (forall k, ustr_eqb k (hexlify (ed_pub seed)) = false -> dget sm' k = dget sm k)
    /\ is_hex_key (VStr (hexlify (ed_pub seed))) = true
    /\ is_signature (sig_dict (VStr (hexlify (ed_sign seed data)))) = true.
Proof. intros ? ? [H1 H2]. exact (sign_frame ed_pub ed_sign H1 H2). Qed.

Theorem C09_sign_idempotent : forall ed_pub ed_sign, ed_sizes ed_pub ed_sign -> forall e seed e',
  sign_signable ed_pub ed_sign e (VPriv seed) = Ok e' -> sign_signable ed_pub ed_sign e' (VPriv seed) = Ok e'.
Proof. intros ? ? [H1 H2]. exact (sign_idempotent ed_pub ed_sign H2). Qed.

Theorem C09_sign_commutes : forall ed_pub ed_sign, ed_sizes ed_pub ed_sign -> forall e s1 s2 e1 e12 e2 e21,
  ustr_eqb (hexlify (ed_pub s1)) (hexlify (ed_pub s2)) = false ->
  sign_signable ed_pub ed_sign e (VPriv s1) = Ok e1 -> sign_signable ed_pub ed_sign e1 (VPriv s2) = Ok e12 ->
  sign_signable ed_pub ed_sign e (VPriv s2) = Ok e2 -> sign_signable ed_pub ed_sign e2 (VPriv s1) = Ok e21 ->
  exists sd sma smb,
    subscript e12 (U"signed") = Ok sd /\ subscript e21 (U"signed") = Ok sd
    /\ subscript e12 (U"signatures") = Ok (VDict sma) /\ subscript e21 (U"signatures") = Ok (VDict smb)
    /\ forall k, dget sma k = dget smb k.
Proof. intros ? ? [H1 H2]. exact (sign_commutes ed_pub ed_sign H1 H2). Qed.

Theorem C09_wrap_sign_verify : forall ed_verify ed_pub ed_sign sha256, ed_sizes ed_pub ed_sign ->
  (forall seed m, ed_verify (ed_pub seed) m (ed_sign seed m) = true) ->
  forall v seed e e',
  wrap_as_signable v = Ok e -> sign_signable ed_pub ed_sign e (VPriv seed) = Ok e' ->
  verify_signable ed_verify sha256 e' (VList [VStr (hexlify (ed_pub seed))]) (VInt 1) (VBool false) = Ok tt.
Proof. intros ? ? ? ? [H1 H2] Hc. exact (wrap_sign_verify ed_verify ed_pub ed_sign sha256 H1 H2 Hc). Qed.

Theorem C09_signers_meet_every_threshold : forall ed_verify ed_pub ed_sign sha256, ed_sizes ed_pub ed_sign ->
  (forall seed m, ed_verify (ed_pub seed) m (ed_sign seed m) = true) ->
  forall e kl tz sd data sm (seeds : list bytes),
  is_signable e = true -> subscript e (U"signed") = Ok sd -> canonserialize sd = Ok data ->
  subscript e (U"signatures") = Ok (VDict sm) ->
  forallb is_hex_key kl = true ->
  NoDup (map (fun s => hexlify (ed_pub s)) seeds) ->
  Forall (fun seed => In (VStr (hexlify (ed_pub seed))) kl
                      /\ dget sm (hexlify (ed_pub seed)) = Some (sig_dict (VStr (hexlify (ed_sign seed data))))) seeds ->
  (1 <= tz <= Z.of_nat (length seeds))%Z ->
  verify_signable ed_verify sha256 e (VList kl) (VInt tz) (VBool false) = Ok tt.
Proof. intros ? ? ? ? [H1 H2] Hc. exact (signers_meet_every_threshold ed_verify ed_pub ed_sign sha256 H1 H2 Hc). Qed.

Theorem C09_never_above_authorized_signers : forall ed_verify sha256 e kl tz gpg sm,
  subscript e (U"signatures") = Ok (VDict sm) -> NoDup (map fst sm) ->
  verify_signable ed_verify sha256 e (VList kl) (VInt tz) gpg = Ok tt ->
  (tz <= Z.of_nat (length (filter (authorized kl) sm)))%Z.
Proof. exact never_above_authorized_signers. Qed.

Theorem C09_edit_stops_counting : forall ed_verify ed_pub ed_sign sha256, ed_sizes ed_pub ed_sign ->
  (forall seed m m', ed_verify (ed_pub seed) m' (ed_sign seed m) = true -> m' = m) ->
  forall seed data data' kl, data' <> data ->
  entry_counts ed_verify sha256 false kl data' (VStr (hexlify (ed_pub seed)), sig_dict (VStr (hexlify (ed_sign seed data)))) <> Ok true.
Proof. intros ? ? ? ? [H1 H2] Hb. exact (edit_stops_counting ed_verify ed_pub ed_sign sha256 H1 H2 Hb). Qed.

(* non-vacuity: a toy scheme meeting the premises (pub = seed padded/truncated to 32 zero bytes .. here constant
   functions suffice for sizes; correctness by a verifier that compares) shows the premises are satisfiable *)
Definition toy_pub (seed : bytes) : bytes := repeat 7 32.
Definition toy_sign (seed m : bytes) : bytes := repeat 9 64.
Example C09_witness :
  ed_sizes toy_pub toy_sign
  /\ match wrap_as_signable (VDict [(VStr (U"a"), VInt 1)]) with
     | Ok e => match sign_signable toy_pub toy_sign e (VPriv [1]) with
               | Ok e' => verify_signable (fun _ _ _ => true) (fun b => b) e' (VList [VStr (hexlify (toy_pub [1]))]) (VInt 1) (VBool false) = Ok tt
                          /\ verify_signable (fun _ _ _ => true) (fun b => b) e' (VList [VStr (hexlify (toy_pub [1]))]) (VInt 2) (VBool false) = Err SignatureError
               | _ => False end
     | _ => False end.
Proof.
  split.
  - split; intros; split; try reflexivity; unfold toy_pub, toy_sign, wf_bytes; apply Forall_forall; intros x Hx;
      apply repeat_spec in Hx; subst; reflexivity.
  - vm_compute. split; reflexivity.
Qed.

(* BEGIN SOURCE PINS -- written by harness/mkpins.py; the list is what Gen/Pins.v held for the tree the model was validated against *)
(* the functions of the package this property depends on (call-graph closure of its entry points), each with the fingerprint of its
   logic (AST without docstrings, annotations, messages, local names): the model and the correspondence runs were validated against
   exactly these; a change of logic in any of them breaks this obligation and the check then searches for a failing input *)
Theorem C09_source_pinned : CCT.Gen.Pins.pinned_C09 =
  [(U"authentication._ascii", U"5f6fc6aad21f14d47c4f");
   (U"authentication.verify_gpg_signature", U"ccbe2bc800d02410d16b");
   (U"authentication.verify_signable", U"1bd56f9b4f5e7bcd88d9");
   (U"authentication.verify_signature", U"7e0a2d567df7e9f0cdd4");
   (U"common.MixinKey.from_hex", U"a6e4e81c0b16461490a5");
   (U"common.MixinKey.to_hex", U"fcdaef7ed3d503ba84df");
   (U"common.PrivateKey.from_bytes", U"2cb488fc935b61f65bba");
   (U"common.PrivateKey.to_bytes", U"c9564ea6ce46886b972b");
   (U"common.PublicKey.from_bytes", U"a439db0d070397bc2b47");
   (U"common.PublicKey.to_bytes", U"1167c2299d20a5c711f2");
   (U"common.canonserialize", U"64fc1dee1d7349d7a920");
   (U"common.checkformat_byteslike", U"1c9da61d15ff3a1a9f97");
   (U"common.checkformat_gpg_fingerprint", U"86e3bb7e4431fb481dc5");
   (U"common.checkformat_gpg_signature", U"a3c5515ffb8c9f6183ba");
   (U"common.checkformat_hex_key", U"625afdf8f56eb4c97143");
   (U"common.checkformat_hex_string", U"eac17f8be3d488d4b8a0");
   (U"common.checkformat_key", U"d3466826154e389f099e");
   (U"common.checkformat_signable", U"dbb8b00a3a3727e018da");
   (U"common.checkformat_signature", U"d544854022da28dcc399");
   (U"common.is_gpg_signature", U"f236e9c50126a7909e84");
   (U"common.is_hex_key", U"63c7822022cd24f926e2");
   (U"common.is_hex_signature", U"433f44075f931ec629d6");
   (U"common.is_hex_string", U"35e6d253e0c21ac09fca");
   (U"common.is_signable", U"6932517519189d75eb93");
   (U"common.is_signature", U"cc04b1fcfd687d0beea7");
   (U"signing.serialize_and_sign", U"b494a1c320877296ecf6");
   (U"signing.sign_signable", U"752f8700cfb513a4c6ba");
   (U"signing.wrap_as_signable", U"aa9e0c33a445b2f5590b")].
Proof. reflexivity. Qed.
(* END SOURCE PINS *)

Print Assumptions C09_wrap_payload_unchanged.
Print Assumptions C09_wrap_iff_serializable_type.
Print Assumptions C09_sign_signable_spec.
Print Assumptions C09_sign_frame.
Print Assumptions C09_sign_idempotent.
Print Assumptions C09_sign_commutes.
Print Assumptions C09_wrap_sign_verify.
Print Assumptions C09_signers_meet_every_threshold.
Print Assumptions C09_never_above_authorized_signers.
Print Assumptions C09_edit_stops_counting.
Print Assumptions C09_witness.
Print Assumptions C09_source_pinned.

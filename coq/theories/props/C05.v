(* C05 -- the delegation check uses exactly the named role's keys and threshold. Property theorems only. *)
From CCT Require Import Prelude Hex Num Time Formats Json Auth.
From CCT.proofs Require Import HexFacts SigFacts AuthFacts SignableFacts DelegationFacts.
Open Scope N_scope.

Theorem C05_verify_delegation_iff : forall ed_verify sha256 name u t gpg,
  verify_delegation ed_verify sha256 name u t gpg = Ok tt <->
  exists nm keys th,
    name = VStr nm /\ gpg_flag_ok gpg = true
    /\ checkformat_delegating_metadata t = Ok tt /\ is_signable u = true
    /\ type_check u nm = Ok tt
    /\ role_rule t nm = Ok (keys, th)
    /\ verify_signable ed_verify sha256 u keys th gpg = Ok tt.
Proof. exact verify_delegation_iff. Qed.

(* role_rule reads the trusted metadata only, and only the entry of exactly that name *)
Theorem C05_role_rule_meaning : forall t nm keys th,
  role_rule t nm = Ok (keys, th) <->
  exists ts dl d,
    subscript t (U"signed") = Ok ts /\ subscript ts (U"delegations") = Ok dl
    /\ py_in_str nm dl = Ok true /\ subscript dl nm = Ok d
    /\ subscript d (U"pubkeys") = Ok keys /\ subscript d (U"threshold") = Ok th.
Proof.
  intros. unfold role_rule. split.
  - destruct (subscript t (U"signed")) as [ts| |] eqn:E1; cbn [bind]; try discriminate.
    destruct (subscript ts (U"delegations")) as [dl| |] eqn:E2; cbn [bind]; try discriminate.
    destruct (py_in_str nm dl) as [[]| |] eqn:E3; cbn [bind negb]; try discriminate.
    destruct (subscript dl nm) as [d| |] eqn:E4; cbn [bind]; try discriminate.
    destruct (subscript d (U"pubkeys")) as [k| |] eqn:E5; cbn [bind]; try discriminate.
    destruct (subscript d (U"threshold")) as [h| |] eqn:E6; cbn [bind]; try discriminate.
    intros [= <- <-]. exists ts, dl, d. repeat split; auto.
  - intros (ts & dl & d & -> & E2 & E3 & E4 & E5 & E6). cbn [bind]. rewrite E2. cbn [bind]. rewrite E3. cbn [bind negb].
    rewrite E4. cbn [bind]. rewrite E5. cbn [bind]. rewrite E6. reflexivity.
Qed.

Theorem C05_unknown_role : forall ed_verify sha256 nm u t gpg ts dl,
  gpg_flag_ok gpg = true -> checkformat_delegating_metadata t = Ok tt -> is_signable u = true ->
  type_check u nm = Ok tt ->
  subscript t (U"signed") = Ok ts -> subscript ts (U"delegations") = Ok dl -> py_in_str nm dl = Ok false ->
  verify_delegation ed_verify sha256 (VStr nm) u t gpg = Err UnknownRoleError.
Proof. exact unknown_role. Qed.

Theorem C05_rule_is_a_projection_of_trusted : forall ed_verify sha256 nm u t t' gpg,
  checkformat_delegating_metadata t = Ok tt -> checkformat_delegating_metadata t' = Ok tt ->
  role_rule t nm = role_rule t' nm ->
  verify_delegation ed_verify sha256 (VStr nm) u t gpg = verify_delegation ed_verify sha256 (VStr nm) u t' gpg.
Proof. exact rule_is_a_projection_of_trusted. Qed.

Theorem C05_delegation_sound : forall ed_verify sha256 name u t gpg,
  verify_delegation ed_verify sha256 name u t gpg = Ok tt ->
  exists nm keys th kl tz sd data sm cs,
    name = VStr nm /\ role_rule t nm = Ok (keys, th) /\ keys = VList kl /\ threshold_value th = Some tz
    /\ subscript u (U"signed") = Ok sd /\ canonserialize sd = Ok data
    /\ subscript u (U"signatures") = Ok (VDict sm)
    /\ incl cs sm /\ (NoDup (map fst sm) -> NoDup (map fst cs)) /\ (1 <= tz <= Z.of_nat (length cs))%Z
    /\ Forall (fun kv => valid_entry ed_verify sha256 (py_truth gpg) kl data (fst kv) (snd kv)) cs.
Proof. exact delegation_sound. Qed.

Print Assumptions C05_verify_delegation_iff.
Print Assumptions C05_role_rule_meaning.
Print Assumptions C05_unknown_role.
Print Assumptions C05_rule_is_a_projection_of_trusted.
Print Assumptions C05_delegation_sound.

(* C05 -- the delegation check uses exactly the named role's keys and threshold. Property theorems only. *)
From CCT Require Import Prelude Hex Num Time Formats Json Auth.
From CCT.Gen Require Pins.
From CCT.proofs Require Import HexFacts SigFacts AuthFacts SignableFacts DelegationFacts.
Open Scope N_scope.

Theorem C05_verify_delegation_iff : forall ed_verify sha256 name u t gpg,
  verify_delegation ed_verify sha256 name u t gpg = Ok tt <->
  exists nm keys th,
    name = VStr nm /\ gpg_flag_ok gpg = true
    /\ checkformat_delegating_metadata t = Ok tt /\ is_signable u = true
    /\ type_check u nm = Ok tt
    /\ role_rule t nm = Ok (keys, th)
    /\ verify_signable ed_verify sha256 u keys th gpg = Ok tt.
Proof. exact verify_delegation_iff. Qed.

(* role_rule reads the trusted metadata only, and only the entry of exactly that name *)
Theorem C05_role_rule_meaning : forall t nm keys th,
  role_rule t nm = Ok (keys, th) <->
  exists ts dl d,
    subscript t (U"signed") = Ok ts /\ subscript ts (U"delegations") = Ok dl
    /\ py_in_str nm dl = Ok true /\ subscript dl nm = Ok d
    /\ subscript d (U"pubkeys") = Ok keys /\ subscript d (U"threshold") = Ok th.
Proof.
  intros. unfold role_rule. split.
  - destruct (subscript t (U"signed")) as [ts| |] eqn:E1; cbn [bind]; try discriminate.
    destruct (subscript ts (U"delegations")) as [dl| |] eqn:E2; cbn [bind]; try discriminate.
    destruct (py_in_str nm dl) as [[]| |] eqn:E3; cbn [bind negb]; try discriminate.
    destruct (subscript dl nm) as [d| |] eqn:E4; cbn [bind]; try discriminate.
    destruct (subscript d (U"pubkeys")) as [k| |] eqn:E5; cbn [bind]; try discriminate.
    destruct (subscript d (U"threshold")) as [h| |] eqn:E6; cbn [bind]; try discriminate.
    intros [= <- <-]. exists ts, dl, d. repeat split; auto.
  - intros (ts & dl & d & -> & E2 & E3 & E4 & E5 & E6). cbn [bind]. rewrite E2. cbn [bind]. rewrite E3. cbn [bind negb].
    rewrite E4. cbn [bind]. rewrite E5. cbn [bind]. rewrite E6. reflexivity.
Qed.

Theorem C05_unknown_role : forall ed_verify sha256 nm u t gpg ts dl,
  gpg_flag_ok gpg = true -> checkformat_delegating_metadata t = Ok tt -> is_signable u = true ->
  type_check u nm = Ok tt ->
  subscript t (U"signed") = Ok ts -> subscript ts (U"delegations") = Ok dl -> py_in_str nm dl = Ok false ->
  verify_delegation ed_verify sha256 (VStr nm) u t gpg = Err UnknownRoleError.
Proof. exact unknown_role. Qed.

Theorem C05_rule_is_a_projection_of_trusted : forall ed_verify sha256 nm u t t' gpg,
  checkformat_delegating_metadata t = Ok tt -> checkformat_delegating_metadata t' = Ok tt ->
  role_rule t nm = role_rule t' nm ->
  verify_delegation ed_verify sha256 (VStr nm) u t gpg = verify_delegation ed_verify sha256 (VStr nm) u t' gpg.
Proof. exact rule_is_a_projection_of_trusted. Qed.

Theorem C05_delegation_sound : forall ed_verify sha256 name u t gpg,
  verify_delegation ed_verify sha256 name u t gpg = Ok tt ->
  exists nm keys th kl tz sd data sm cs,
    name = VStr nm /\ role_rule t nm = Ok (keys, th) /\ keys = VList kl /\ threshold_value th = Some tz
    /\ subscript u (U"signed") = Ok sd /\ canonserialize sd = Ok data
    /\ subscript u (U"signatures") = Ok (VDict sm)
    /\ incl cs sm /\ (NoDup (map fst sm) -> NoDup (map fst cs)) /\ (1 <= tz <= Z.of_nat (length cs))%Z
    /\ Forall (fun kv => valid_entry ed_verify sha256 (py_truth gpg) kl data (fst kv) (snd kv)) cs.
Proof. exact delegation_sound. Qed.

(* BEGIN SOURCE PINS -- written by harness/mkpins.py; the list is what Gen/Pins.v held for the tree the model was validated against *)
(* the functions of the package this property depends on (call-graph closure of its entry points), each with the fingerprint of its
   logic (AST without docstrings, annotations, messages, local names): the model and the correspondence runs were validated against
   exactly these; a change of logic in any of them breaks this obligation and the check then searches for a failing input *)
Theorem C05_source_pinned : CCT.Gen.Pins.pinned_C05 =
  [(U"authentication._ascii", U"5f6fc6aad21f14d47c4f");
   (U"authentication.verify_delegation", U"5dc5b9065823f0f50085");
   (U"authentication.verify_gpg_signature", U"ccbe2bc800d02410d16b");
   (U"authentication.verify_signable", U"1bd56f9b4f5e7bcd88d9");
   (U"authentication.verify_signature", U"7e0a2d567df7e9f0cdd4");
   (U"common.MixinKey.from_hex", U"a6e4e81c0b16461490a5");
   (U"common.PrivateKey.from_bytes", U"2cb488fc935b61f65bba");
   (U"common.PublicKey.from_bytes", U"a439db0d070397bc2b47");
   (U"common.canonserialize", U"64fc1dee1d7349d7a920");
   (U"common.checkformat_any_signature", U"82ba0ed515a770fad8a9");
   (U"common.checkformat_byteslike", U"1c9da61d15ff3a1a9f97");
   (U"common.checkformat_delegating_metadata", U"b013c9fa5677f3b3f637");
   (U"common.checkformat_delegation", U"25fc9c6692b07cdca131");
   (U"common.checkformat_delegations", U"d6a7d445f5f827a1471c");
   (U"common.checkformat_gpg_fingerprint", U"86e3bb7e4431fb481dc5");
   (U"common.checkformat_gpg_signature", U"a3c5515ffb8c9f6183ba");
   (U"common.checkformat_hex_key", U"625afdf8f56eb4c97143");
   (U"common.checkformat_hex_string", U"eac17f8be3d488d4b8a0");
   (U"common.checkformat_key", U"d3466826154e389f099e");
   (U"common.checkformat_list_of_hex_keys", U"4c9121b74cf062a7e2fd");
   (U"common.checkformat_natural_int", U"14f9984b8b7ef6014787");
   (U"common.checkformat_signable", U"dbb8b00a3a3727e018da");
   (U"common.checkformat_signature", U"d544854022da28dcc399");
   (U"common.checkformat_string", U"a139d0a4113d71e93d9f");
   (U"common.checkformat_utc_isoformat", U"6fed4a2332e7258f7147");
   (U"common.is_gpg_signature", U"f236e9c50126a7909e84");
   (U"common.is_hex_key", U"63c7822022cd24f926e2");
   (U"common.is_hex_signature", U"433f44075f931ec629d6");
   (U"common.is_hex_string", U"35e6d253e0c21ac09fca");
   (U"common.is_signable", U"6932517519189d75eb93");
   (U"common.is_signature", U"cc04b1fcfd687d0beea7")].
Proof. reflexivity. Qed.
(* END SOURCE PINS *)

Print Assumptions C05_verify_delegation_iff.
Print Assumptions C05_role_rule_meaning.
Print Assumptions C05_unknown_role.
Print Assumptions C05_rule_is_a_projection_of_trusted.
Print Assumptions C05_delegation_sound.
Print Assumptions C05_source_pinned.

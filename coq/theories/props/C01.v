(* C01 -- threshold soundness. Property theorems only. ed_verify and sha256 are universally
   quantified: "cryptographically valid" is the verdict of the verification primitive. *)
From CCT Require Import Prelude Hex Num Time Formats Json Auth.
From CCT.Gen Require Pins.
From CCT.proofs Require Import HexFacts SigFacts AuthFacts SignableFacts.
Open Scope N_scope.

Theorem C01_verify_signable_sound : forall ed_verify sha256 s K t gpg,
  verify_signable ed_verify sha256 s K t gpg = Ok tt ->
  exists kl tz sd data sm,
    is_signable s = true /\ K = VList kl /\ threshold_value t = Some tz /\ (1 <= tz)%Z
    /\ subscript s (U"signed") = Ok sd /\ canonserialize sd = Ok data
    /\ subscript s (U"signatures") = Ok (VDict sm)
    /\ exists cs,
         incl cs sm /\ (NoDup (map fst sm) -> NoDup (map fst cs))
         /\ (tz <= Z.of_nat (length cs))%Z
         /\ Forall (fun kv => valid_entry ed_verify sha256 (py_truth gpg) kl data (fst kv) (snd kv)) cs.
Proof. exact verify_signable_sound. Qed.

(* what "valid entry" says, unfolded once so that the statement can be read here *)
Theorem C01_valid_entry_meaning : forall ed_verify sha256 gpg kl data k v,
  valid_entry ed_verify sha256 gpg kl data k v <->
  exists h, k = VStr h /\ (length h = 64%nat /\ forallb is_lower_hex h = true) /\ In k kl /\
    if gpg then
      exists m oh sg hb sb msg,
        v = VDict m /\ gpg_shape v
        /\ dget m (U"other_headers") = Some (VStr oh) /\ fromhex oh = Some hb
        /\ dget m (U"signature") = Some (VStr sg) /\ fromhex sg = Some sb
        /\ frame data hb = Ok msg /\ ed_verify (keyb h) (sha256 msg) sb = true
    else
      exists m sg sb,
        v = VDict m /\ (raw_shape v \/ gpg_shape v)
        /\ dget m (U"signature") = Some (VStr sg) /\ fromhex sg = Some sb
        /\ ed_verify (keyb h) data sb = true.
Proof. intros; reflexivity. Qed.

Theorem C01_counted_keys_distinct_bytes : forall ed_verify sha256 gpg kl data (cs : list (pv * pv)),
  NoDup (map fst cs) ->
  Forall (fun kv => valid_entry ed_verify sha256 gpg kl data (fst kv) (snd kv)) cs ->
  NoDup (map (fun kv => key_bytes (fst kv)) cs).
Proof. exact counted_keys_distinct_bytes. Qed.

Theorem C01_entry_counts_iff_valid : forall ed_verify sha256 gpg kl data k v,
  entry_counts ed_verify sha256 gpg kl data (k, v) = Ok true <-> valid_entry ed_verify sha256 gpg kl data k v.
Proof. exact entry_counts_true. Qed.

Theorem C01_unauthorized_never_counts : forall ed_verify sha256 gpg kl data k v,
  ~ In k kl -> entry_counts ed_verify sha256 gpg kl data (k, v) <> Ok true.
Proof. exact unauthorized_never_counts. Qed.

Theorem C01_malformed_key_never_counts : forall ed_verify sha256 gpg kl data k v,
  is_hex_key k = false -> entry_counts ed_verify sha256 gpg kl data (k, v) <> Ok true.
Proof. exact malformed_key_never_counts. Qed.

Theorem C01_malformed_value_never_counts : forall ed_verify sha256 (gpg : bool) kl data k v,
  (if gpg then is_gpg_signature v else is_signature v) = false ->
  entry_counts ed_verify sha256 gpg kl data (k, v) <> Ok true.
Proof. exact malformed_value_never_counts. Qed.

Theorem C01_threshold_monotone : forall ed_verify sha256 s K tz tz' gpg,
  verify_signable ed_verify sha256 s K (VInt tz) gpg = Ok tt -> (1 <= tz' <= tz)%Z ->
  verify_signable ed_verify sha256 s K (VInt tz') gpg = Ok tt.
Proof. exact threshold_monotone. Qed.

(* non-vacuity: a three-entry envelope, two counting entries, accepted at 2 and refused at 3;
   with a verifier that rejects everything nothing is accepted *)
Definition ex_k1 := VStr (repeat 97 64). Definition ex_k2 := VStr (repeat 98 64). Definition ex_k3 := VStr (repeat 99 64).
Definition ex_sig := VDict [(VStr (U"signature"), VStr (repeat 48 128))].
Definition ex_env := VDict [(VStr (U"signatures"), VDict [(ex_k1, ex_sig); (VStr (U"junk"), VInt 5); (ex_k2, ex_sig); (ex_k3, ex_sig)]);
                            (VStr (U"signed"), VDict [(VStr (U"a"), VInt 1)])].
Example C01_witness :
  verify_signable (fun _ _ _ => true) (fun b => b) ex_env (VList [ex_k1; ex_k2]) (VInt 2) (VBool false) = Ok tt
  /\ verify_signable (fun _ _ _ => true) (fun b => b) ex_env (VList [ex_k1; ex_k2]) (VInt 3) (VBool false) = Err SignatureError
  /\ verify_signable (fun _ _ _ => false) (fun b => b) ex_env (VList [ex_k1; ex_k2]) (VInt 1) (VBool false) = Err SignatureError.
Proof. vm_compute. repeat split. Qed.

(* BEGIN SOURCE PINS -- written by harness/mkpins.py; the list is what Gen/Pins.v held for the tree the model was validated against *)
(* the functions of the package this property depends on (call-graph closure of its entry points), each with the fingerprint of its
   logic (AST without docstrings, annotations, messages, local names): the model and the correspondence runs were validated against
   exactly these; a change of logic in any of them breaks this obligation and the check then searches for a failing input *)
Theorem C01_source_pinned : CCT.Gen.Pins.pinned_C01 =
  [(U"authentication._ascii", U"5f6fc6aad21f14d47c4f");
   (U"authentication.verify_gpg_signature", U"ccbe2bc800d02410d16b");
   (U"authentication.verify_signable", U"1bd56f9b4f5e7bcd88d9");
   (U"authentication.verify_signature", U"7e0a2d567df7e9f0cdd4");
   (U"common.MixinKey.from_hex", U"a6e4e81c0b16461490a5");
   (U"common.PrivateKey.from_bytes", U"2cb488fc935b61f65bba");
   (U"common.PublicKey.from_bytes", U"a439db0d070397bc2b47");
   (U"common.canonserialize", U"64fc1dee1d7349d7a920");
   (U"common.checkformat_byteslike", U"1c9da61d15ff3a1a9f97");
   (U"common.checkformat_gpg_fingerprint", U"86e3bb7e4431fb481dc5");
   (U"common.checkformat_gpg_signature", U"a3c5515ffb8c9f6183ba");
   (U"common.checkformat_hex_key", U"625afdf8f56eb4c97143");
   (U"common.checkformat_hex_string", U"eac17f8be3d488d4b8a0");
   (U"common.checkformat_key", U"d3466826154e389f099e");
   (U"common.checkformat_signature", U"d544854022da28dcc399");
   (U"common.is_gpg_signature", U"f236e9c50126a7909e84");
   (U"common.is_hex_key", U"63c7822022cd24f926e2");
   (U"common.is_hex_signature", U"433f44075f931ec629d6");
   (U"common.is_hex_string", U"35e6d253e0c21ac09fca");
   (U"common.is_signable", U"6932517519189d75eb93");
   (U"common.is_signature", U"cc04b1fcfd687d0beea7")].
Proof. reflexivity. Qed.
(* END SOURCE PINS *)

Print Assumptions C01_verify_signable_sound.
Print Assumptions C01_valid_entry_meaning.
Print Assumptions C01_counted_keys_distinct_bytes.
Print Assumptions C01_entry_counts_iff_valid.
Print Assumptions C01_unauthorized_never_counts.
Print Assumptions C01_malformed_key_never_counts.
Print Assumptions C01_malformed_value_never_counts.
Print Assumptions C01_threshold_monotone.
Print Assumptions C01_witness.
Print Assumptions C01_source_pinned.

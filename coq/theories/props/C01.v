(* C01 -- threshold soundness. Property theorems only. ed_verify and sha256 are universally
   quantified: "cryptographically valid" is the verdict of the verification primitive. *)
From CCT Require Import Prelude Hex Num Time Formats Json Auth.
From CCT.proofs Require Import HexFacts SigFacts AuthFacts SignableFacts.
Open Scope N_scope.

Theorem C01_verify_signable_sound : forall ed_verify sha256 s K t gpg,
  verify_signable ed_verify sha256 s K t gpg = Ok tt ->
  exists kl tz sd data sm,
    is_signable s = true /\ K = VList kl /\ threshold_value t = Some tz /\ (1 <= tz)%Z
    /\ subscript s (U"signed") = Ok sd /\ canonserialize sd = Ok data
    /\ subscript s (U"signatures") = Ok (VDict sm)
    /\ exists cs,
         incl cs sm /\ (NoDup (map fst sm) -> NoDup (map fst cs))
         /\ (tz <= Z.of_nat (length cs))%Z
         /\ Forall (fun kv => valid_entry ed_verify sha256 (py_truth gpg) kl data (fst kv) (snd kv)) cs.
Proof. exact verify_signable_sound. Qed.

(* what "valid entry" says, unfolded once so that the statement can be read here *)
Theorem C01_valid_entry_meaning : forall ed_verify sha256 gpg kl data k v,
  valid_entry ed_verify sha256 gpg kl data k v <->
  exists h, k = VStr h /\ (length h = 64%nat /\ forallb is_lower_hex h = true) /\ In k kl /\
    if gpg then
      exists m oh sg hb sb msg,
        v = VDict m /\ gpg_shape v
        /\ dget m (U"other_headers") = Some (VStr oh) /\ fromhex oh = Some hb
        /\ dget m (U"signature") = Some (VStr sg) /\ fromhex sg = Some sb
        /\ frame data hb = Ok msg /\ ed_verify (keyb h) (sha256 msg) sb = true
    else
      exists m sg sb,
        v = VDict m /\ (raw_shape v \/ gpg_shape v)
        /\ dget m (U"signature") = Some (VStr sg) /\ fromhex sg = Some sb
        /\ ed_verify (keyb h) data sb = true.
Proof. intros; reflexivity. Qed.

Theorem C01_counted_keys_distinct_bytes : forall ed_verify sha256 gpg kl data (cs : list (pv * pv)),
  NoDup (map fst cs) ->
  Forall (fun kv => valid_entry ed_verify sha256 gpg kl data (fst kv) (snd kv)) cs ->
  NoDup (map (fun kv => key_bytes (fst kv)) cs).
Proof. exact counted_keys_distinct_bytes. Qed.

Theorem C01_entry_counts_iff_valid : forall ed_verify sha256 gpg kl data k v,
  entry_counts ed_verify sha256 gpg kl data (k, v) = Ok true <-> valid_entry ed_verify sha256 gpg kl data k v.
Proof. exact entry_counts_true. Qed.

Theorem C01_unauthorized_never_counts : forall ed_verify sha256 gpg kl data k v,
  ~ In k kl -> entry_counts ed_verify sha256 gpg kl data (k, v) <> Ok true.
Proof. exact unauthorized_never_counts. Qed.

Theorem C01_malformed_key_never_counts : forall ed_verify sha256 gpg kl data k v,
  is_hex_key k = false -> entry_counts ed_verify sha256 gpg kl data (k, v) <> Ok true.
Proof. exact malformed_key_never_counts. Qed.

Theorem C01_malformed_value_never_counts : forall ed_verify sha256 (gpg : bool) kl data k v,
  (if gpg then is_gpg_signature v else is_signature v) = false ->
  entry_counts ed_verify sha256 gpg kl data (k, v) <> Ok true.
Proof. exact malformed_value_never_counts. Qed.

Theorem C01_threshold_monotone : forall ed_verify sha256 s K tz tz' gpg,
  verify_signable ed_verify sha256 s K (VInt tz) gpg = Ok tt -> (1 <= tz' <= tz)%Z ->
  verify_signable ed_verify sha256 s K (VInt tz') gpg = Ok tt.
Proof. exact threshold_monotone. Qed.

(* non-vacuity: a three-entry envelope, two counting entries, accepted at 2 and refused at 3;
   with a verifier that rejects everything nothing is accepted *)
Definition ex_k1 := VStr (repeat 97 64). Definition ex_k2 := VStr (repeat 98 64). Definition ex_k3 := VStr (repeat 99 64).
Definition ex_sig := VDict [(VStr (U"signature"), VStr (repeat 48 128))].
Definition ex_env := VDict [(VStr (U"signatures"), VDict [(ex_k1, ex_sig); (VStr (U"junk"), VInt 5); (ex_k2, ex_sig); (ex_k3, ex_sig)]);
                            (VStr (U"signed"), VDict [(VStr (U"a"), VInt 1)])].
Example C01_witness :
  verify_signable (fun _ _ _ => true) (fun b => b) ex_env (VList [ex_k1; ex_k2]) (VInt 2) (VBool false) = Ok tt
  /\ verify_signable (fun _ _ _ => true) (fun b => b) ex_env (VList [ex_k1; ex_k2]) (VInt 3) (VBool false) = Err SignatureError
  /\ verify_signable (fun _ _ _ => false) (fun b => b) ex_env (VList [ex_k1; ex_k2]) (VInt 1) (VBool false) = Err SignatureError.
Proof. vm_compute. repeat split. Qed.

Print Assumptions C01_verify_signable_sound.
Print Assumptions C01_valid_entry_meaning.
Print Assumptions C01_counted_keys_distinct_bytes.
Print Assumptions C01_entry_counts_iff_valid.
Print Assumptions C01_unauthorized_never_counts.
Print Assumptions C01_malformed_key_never_counts.
Print Assumptions C01_malformed_value_never_counts.
Print Assumptions C01_threshold_monotone.
Print Assumptions C01_witness.

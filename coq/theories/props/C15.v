(* C15 -- leaf format validators decide exact grammars; one spelling per key.
   Property theorems only; each is closed by `exact` of a lemma proved elsewhere. *)
From CCT Require Import Prelude Hex Num Time Formats.
From CCT.Gen Require Pins.
From CCT.Gen Require Params.
From CCT.proofs Require Import HexFacts SigFacts.

(* constants of the source, re-read on every run *)
Theorem C15_lengths_frozen :
  Params.key_len_src = Some 64%nat /\ Params.sig_len_src = Some 128%nat /\ Params.fpr_len_src = Some 40%nat.
Proof. repeat split; reflexivity. Qed.

Theorem C15_hex_key_iff : forall v,
  is_hex_key v = true <-> exists s, v = VStr s /\ length s = 64%nat /\ forallb is_lower_hex s = true.
Proof. exact is_hex_key_iff. Qed.

Theorem C15_hex_signature_iff : forall v,
  is_hex_signature v = true <-> exists s, v = VStr s /\ length s = 128%nat /\ forallb is_lower_hex s = true.
Proof. exact is_hex_signature_iff. Qed.

Theorem C15_gpg_fingerprint_iff : forall v,
  is_gpg_fingerprint v = true <-> exists s, v = VStr s /\ length s = 40%nat /\ forallb is_lower_hex s = true.
Proof. exact is_gpg_fingerprint_iff. Qed.

Theorem C15_hex_string_iff : forall v,
  is_hex_string v = true <->
  exists s, v = VStr s /\ negb (Nat.eqb (length s) 0) && Nat.even (length s) && forallb is_lower_hex s = true.
Proof. exact is_hex_string_iff. Qed.

(* signature entries: precisely the raw or the OpenPGP shape *)
Theorem C15_signature_entry_iff : forall v, is_signature v = true <-> raw_shape v \/ gpg_shape v.
Proof. exact is_signature_iff. Qed.

Theorem C15_gpg_signature_entry_iff : forall v, is_gpg_signature v = true <-> gpg_shape v.
Proof. exact is_gpg_signature_iff. Qed.

(* distinct accepted key strings denote distinct key bytes *)
Theorem C15_spelling_injective : forall s s',
  is_hex_key (VStr s) = true -> is_hex_key (VStr s') = true -> fromhex s = fromhex s' -> s = s'.
Proof.
  intros s s' H H'. apply is_hex_key_iff in H as (? & [= <-] & H). apply is_hex_key_iff in H' as (? & [= <-] & H').
  exact (fromhex_injective 64 s s' eq_refl H H').
Qed.

(* a key list accepted as duplicate-free contains no key twice under any spelling *)
Theorem C15_keylist_no_dup_bytes : forall l,
  checkformat_list_of_hex_keys (VList l) = Ok tt -> NoDup (map key_bytes l).
Proof. exact keylist_no_dup_bytes. Qed.

(* predicate forms agree with raising forms; raisers stay in {Ok, TypeError, ValueError} *)
Theorem C15_predicate_agrees : forall v,
  (is_hex_string v = true <-> checkformat_hex_string v = Ok tt)
  /\ (is_hex_key v = true <-> checkformat_hex_key v = Ok tt)
  /\ (is_gpg_fingerprint v = true <-> checkformat_gpg_fingerprint v = Ok tt)
  /\ (is_signature v = true <-> checkformat_signature v = Ok tt)
  /\ (is_gpg_signature v = true <-> checkformat_gpg_signature v = Ok tt).
Proof.
  intros v. repeat split; intros H.
  - apply checkformat_hex_string_iff, is_hex_string_iff, H.
  - apply is_hex_string_iff, checkformat_hex_string_iff, H.
  - apply checkformat_hex_key_iff, is_hex_key_iff, H.
  - apply is_hex_key_iff, checkformat_hex_key_iff, H.
  - apply checkformat_gpg_fingerprint_iff, is_gpg_fingerprint_iff, H.
  - apply is_gpg_fingerprint_iff, checkformat_gpg_fingerprint_iff, H.
  - apply checkformat_signature_iff, is_signature_iff, H.
  - apply is_signature_iff, checkformat_signature_iff, H.
  - apply checkformat_gpg_signature_iff, is_gpg_signature_iff, H.
  - apply is_gpg_signature_iff, checkformat_gpg_signature_iff, H.
Qed.

Theorem C15_raisers_family : forall v,
  (checkformat_hex_string v = Ok tt \/ checkformat_hex_string v = Err TypeError \/ checkformat_hex_string v = Err ValueError)
  /\ (checkformat_gpg_fingerprint v = Ok tt \/ checkformat_gpg_fingerprint v = Err TypeError \/ checkformat_gpg_fingerprint v = Err ValueError)
  /\ (checkformat_signature v = Ok tt \/ checkformat_signature v = Err TypeError \/ checkformat_signature v = Err ValueError).
Proof.
  intros v. split; [apply checkformat_hex_string_family|]. split; [apply checkformat_gpg_fingerprint_family|].
  apply checkformat_signature_family.
Qed.

(* non-vacuity: a concrete key, a concrete raw entry and a concrete OpenPGP entry are accepted; near misses are not *)
Example C15_witnesses :
  is_hex_key (VStr (repeat 97%N 64)) = true
  /\ is_hex_key (VStr (repeat 65%N 64)) = false
  /\ is_hex_key (VStr (32%N :: repeat 97%N 63)) = false
  /\ is_hex_key (VStr (repeat 97%N 63 ++ [1632%N])) = false
  /\ is_hex_key (VBytes (repeat 97%N 64)) = false
  /\ is_signature (VDict [(VStr (U"signature"), VStr (repeat 48%N 128))]) = true
  /\ is_gpg_signature (VDict [(VStr (U"other_headers"), VStr (U"04ff")); (VStr (U"signature"), VStr (repeat 48%N 128))]) = true
  /\ is_gpg_signature (VDict [(VStr (U"other_headers"), VStr (U"")); (VStr (U"signature"), VStr (repeat 48%N 128))]) = false.
Proof. vm_compute. repeat split. Qed.

(* BEGIN SOURCE PINS -- written by harness/mkpins.py; the list is what Gen/Pins.v held for the tree the model was validated against *)
(* the functions of the package this property depends on (call-graph closure of its entry points), each with the fingerprint of its
   logic (AST without docstrings, annotations, messages, local names): the model and the correspondence runs were validated against
   exactly these; a change of logic in any of them breaks this obligation and the check then searches for a failing input *)
Theorem C15_source_pinned : CCT.Gen.Pins.pinned_C15 =
  [(U"common.checkformat_any_signature", U"82ba0ed515a770fad8a9");
   (U"common.checkformat_gpg_fingerprint", U"86e3bb7e4431fb481dc5");
   (U"common.checkformat_gpg_signature", U"a3c5515ffb8c9f6183ba");
   (U"common.checkformat_hex_key", U"625afdf8f56eb4c97143");
   (U"common.checkformat_hex_string", U"eac17f8be3d488d4b8a0");
   (U"common.checkformat_list_of_hex_keys", U"4c9121b74cf062a7e2fd");
   (U"common.checkformat_signature", U"d544854022da28dcc399");
   (U"common.is_gpg_fingerprint", U"fd061164635908ebd7f2");
   (U"common.is_gpg_signature", U"f236e9c50126a7909e84");
   (U"common.is_hex_key", U"63c7822022cd24f926e2");
   (U"common.is_hex_signature", U"433f44075f931ec629d6");
   (U"common.is_hex_string", U"35e6d253e0c21ac09fca");
   (U"common.is_signature", U"cc04b1fcfd687d0beea7")].
Proof. reflexivity. Qed.
(* END SOURCE PINS *)

Print Assumptions C15_lengths_frozen.
Print Assumptions C15_hex_key_iff.
Print Assumptions C15_hex_signature_iff.
Print Assumptions C15_gpg_fingerprint_iff.
Print Assumptions C15_hex_string_iff.
Print Assumptions C15_signature_entry_iff.
Print Assumptions C15_gpg_signature_entry_iff.
Print Assumptions C15_spelling_injective.
Print Assumptions C15_keylist_no_dup_bytes.
Print Assumptions C15_predicate_agrees.
Print Assumptions C15_raisers_family.
Print Assumptions C15_witnesses.
Print Assumptions C15_source_pinned.

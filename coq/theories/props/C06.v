(* C06 -- declared type bound to the role by signed content alone; stripping. Property theorems only. *)
From CCT Require Import Prelude Hex Num Time Formats Json Auth.
From CCT.proofs Require Import HexFacts SigFacts AuthFacts SignableFacts DelegationFacts.
Open Scope N_scope.

(* for EVERY signature map sm: if the signed portion alone is well-formed delegating metadata of another type, refuse *)
Theorem C06_type_mismatch_never_accepted : forall ed_verify sha256 nm sm sd t gpg ty,
  checkformat_delegating_metadata (mk_env [] sd) = Ok tt -> subscript sd (U"type") = Ok ty -> str_ne ty nm = true ->
  verify_delegation ed_verify sha256 (VStr nm) (mk_env sm sd) t gpg <> Ok tt.
Proof. exact type_mismatch_never_accepted. Qed.

(* the type test does not look at the signature map at all *)
Theorem C06_type_check_ignores_signatures : forall sm sm' sd nm,
  type_check (mk_env sm sd) nm = type_check (mk_env sm' sd) nm.
Proof. exact type_check_signed_only. Qed.

Theorem C06_strip_preserves_signable : forall ed_verify sha256 sm sd kl t gpg data,
  canonserialize sd = Ok data -> NoDup sm ->
  verify_signable ed_verify sha256 (mk_env sm sd) (VList kl) t gpg = Ok tt ->
  verify_signable ed_verify sha256 (mk_env (strip ed_verify sha256 (py_truth gpg) kl data sm) sd) (VList kl) t gpg = Ok tt.
Proof. exact strip_preserves_signable. Qed.

Theorem C06_strip_preserves_delegation : forall ed_verify sha256 nm sm sd t gpg kl th data,
  role_rule t nm = Ok (VList kl, th) -> canonserialize sd = Ok data -> NoDup sm ->
  verify_delegation ed_verify sha256 (VStr nm) (mk_env sm sd) t gpg = Ok tt ->
  verify_delegation ed_verify sha256 (VStr nm) (mk_env (strip ed_verify sha256 (py_truth gpg) kl data sm) sd) t gpg = Ok tt.
Proof. exact strip_preserves_delegation. Qed.

Theorem C06_acceptance_depends_on_counting_only : forall ed_verify sha256 sm sm' sd kl t gpg data,
  canonserialize sd = Ok data -> NoDup sm -> NoDup sm' ->
  total_on (entry_counts ed_verify sha256 (py_truth gpg) kl data) sm ->
  total_on (entry_counts ed_verify sha256 (py_truth gpg) kl data) sm' ->
  (forall kv, In kv (strip ed_verify sha256 (py_truth gpg) kl data sm) <-> In kv (strip ed_verify sha256 (py_truth gpg) kl data sm')) ->
  (verify_signable ed_verify sha256 (mk_env sm sd) (VList kl) t gpg = Ok tt
   <-> verify_signable ed_verify sha256 (mk_env sm' sd) (VList kl) t gpg = Ok tt).
Proof. exact acceptance_depends_on_counting_only. Qed.

Print Assumptions C06_type_mismatch_never_accepted.
Print Assumptions C06_type_check_ignores_signatures.
Print Assumptions C06_strip_preserves_signable.
Print Assumptions C06_strip_preserves_delegation.
Print Assumptions C06_acceptance_depends_on_counting_only.

(* C06 -- declared type bound to the role by signed content alone; stripping. Property theorems only. *)
From CCT Require Import Prelude Hex Num Time Formats Json Auth.
From CCT.Gen Require Pins.
From CCT.proofs Require Import HexFacts SigFacts AuthFacts SignableFacts DelegationFacts RootFacts SchemaFacts StripFacts.
Open Scope N_scope.

(* for EVERY signature map sm: if the signed portion alone is well-formed delegating metadata of another type, refuse *)
Theorem C06_type_mismatch_never_accepted : forall ed_verify sha256 nm sm sd t gpg ty,
  checkformat_delegating_metadata (mk_env [] sd) = Ok tt -> subscript sd (U"type") = Ok ty -> str_ne ty nm = true ->
  verify_delegation ed_verify sha256 (VStr nm) (mk_env sm sd) t gpg <> Ok tt.
Proof. exact type_mismatch_never_accepted. Qed.

(* the type test does not look at the signature map at all *)
Theorem C06_type_check_ignores_signatures : forall sm sm' sd nm,
  type_check (mk_env sm sd) nm = type_check (mk_env sm' sd) nm.
Proof. exact type_check_signed_only. Qed.

Theorem C06_strip_preserves_signable : forall ed_verify sha256 sm sd kl t gpg data,
  canonserialize sd = Ok data -> NoDup sm ->
  verify_signable ed_verify sha256 (mk_env sm sd) (VList kl) t gpg = Ok tt ->
  verify_signable ed_verify sha256 (mk_env (strip ed_verify sha256 (py_truth gpg) kl data sm) sd) (VList kl) t gpg = Ok tt.
Proof. exact strip_preserves_signable. Qed.

Theorem C06_strip_preserves_delegation : forall ed_verify sha256 nm sm sd t gpg kl th data,
  role_rule t nm = Ok (VList kl, th) -> canonserialize sd = Ok data -> NoDup sm ->
  verify_delegation ed_verify sha256 (VStr nm) (mk_env sm sd) t gpg = Ok tt ->
  verify_delegation ed_verify sha256 (VStr nm) (mk_env (strip ed_verify sha256 (py_truth gpg) kl data sm) sd) t gpg = Ok tt.
Proof. exact strip_preserves_delegation. Qed.

Theorem C06_acceptance_depends_on_counting_only : forall ed_verify sha256 sm sm' sd kl t gpg data,
  canonserialize sd = Ok data -> NoDup sm -> NoDup sm' ->
  total_on (entry_counts ed_verify sha256 (py_truth gpg) kl data) sm ->
  total_on (entry_counts ed_verify sha256 (py_truth gpg) kl data) sm' ->
  (forall kv, In kv (strip ed_verify sha256 (py_truth gpg) kl data sm) <-> In kv (strip ed_verify sha256 (py_truth gpg) kl data sm')) ->
  (verify_signable ed_verify sha256 (mk_env sm sd) (VList kl) t gpg = Ok tt
   <-> verify_signable ed_verify sha256 (mk_env sm' sd) (VList kl) t gpg = Ok tt).
Proof. exact acceptance_depends_on_counting_only. Qed.

(* the third verifier: an accepted root offer stays accepted when its signature map keeps only the entries that count for the
   trusted root's rule or for the offered root's own rule (the format check of the offered envelope included) *)
Theorem C06_strip_preserves_root : forall ed_verify sha256 t sm sd data tv uv klo kln,
  canonserialize sd = Ok data -> NoDup sm ->
  view t = Ok tv -> rv_keys tv = VList klo -> view (mk_env sm sd) = Ok uv -> rv_keys uv = VList kln ->
  verify_root ed_verify sha256 t (mk_env sm sd) = Ok tt ->
  verify_root ed_verify sha256 t (mk_env (strip_root ed_verify sha256 klo kln data sm) sd) = Ok tt.
Proof. exact strip_preserves_root. Qed.

(* nothing added to the unsigned map, short of an entry that counts, turns a rejected root offer into an accepted one *)
Theorem C06_junk_never_helps_root : forall ed_verify sha256 t sm extra sd data tv uv klo kln,
  canonserialize sd = Ok data -> NoDup (sm ++ extra) ->
  view t = Ok tv -> rv_keys tv = VList klo -> view (mk_env sm sd) = Ok uv -> rv_keys uv = VList kln ->
  Forall (fun kv => counts (entry_counts ed_verify sha256 true klo data) kv = false
                    /\ counts (entry_counts ed_verify sha256 true kln data) kv = false) extra ->
  verify_root ed_verify sha256 t (mk_env (sm ++ extra) sd) = Ok tt -> verify_root ed_verify sha256 t (mk_env sm sd) = Ok tt.
Proof. exact junk_never_helps_root. Qed.

(* BEGIN SOURCE PINS -- written by harness/mkpins.py; the list is what Gen/Pins.v held for the tree the model was validated against *)
(* the functions of the package this property depends on (call-graph closure of its entry points), each with the fingerprint of its
   logic (AST without docstrings, annotations, messages, local names): the model and the correspondence runs were validated against
   exactly these; a change of logic in any of them breaks this obligation and the check then searches for a failing input *)
Theorem C06_source_pinned : CCT.Gen.Pins.pinned_C06 =
  [(U"authentication._ascii", U"5f6fc6aad21f14d47c4f");
   (U"authentication.verify_delegation", U"5dc5b9065823f0f50085");
   (U"authentication.verify_gpg_signature", U"ccbe2bc800d02410d16b");
   (U"authentication.verify_root", U"6692242951185dc7604b");
   (U"authentication.verify_signable", U"1bd56f9b4f5e7bcd88d9");
   (U"authentication.verify_signature", U"7e0a2d567df7e9f0cdd4");
   (U"common.MixinKey.from_hex", U"a6e4e81c0b16461490a5");
   (U"common.PrivateKey.from_bytes", U"2cb488fc935b61f65bba");
   (U"common.PublicKey.from_bytes", U"a439db0d070397bc2b47");
   (U"common.canonserialize", U"64fc1dee1d7349d7a920");
   (U"common.checkformat_any_signature", U"82ba0ed515a770fad8a9");
   (U"common.checkformat_byteslike", U"1c9da61d15ff3a1a9f97");
   (U"common.checkformat_delegating_metadata", U"b013c9fa5677f3b3f637");
   (U"common.checkformat_delegation", U"25fc9c6692b07cdca131");
   (U"common.checkformat_delegations", U"d6a7d445f5f827a1471c");
   (U"common.checkformat_gpg_fingerprint", U"86e3bb7e4431fb481dc5");
   (U"common.checkformat_gpg_signature", U"a3c5515ffb8c9f6183ba");
   (U"common.checkformat_hex_key", U"625afdf8f56eb4c97143");
   (U"common.checkformat_hex_string", U"eac17f8be3d488d4b8a0");
   (U"common.checkformat_key", U"d3466826154e389f099e");
   (U"common.checkformat_list_of_hex_keys", U"4c9121b74cf062a7e2fd");
   (U"common.checkformat_natural_int", U"14f9984b8b7ef6014787");
   (U"common.checkformat_signable", U"dbb8b00a3a3727e018da");
   (U"common.checkformat_signature", U"d544854022da28dcc399");
   (U"common.checkformat_string", U"a139d0a4113d71e93d9f");
   (U"common.checkformat_utc_isoformat", U"6fed4a2332e7258f7147");
   (U"common.is_gpg_signature", U"f236e9c50126a7909e84");
   (U"common.is_hex_key", U"63c7822022cd24f926e2");
   (U"common.is_hex_signature", U"433f44075f931ec629d6");
   (U"common.is_hex_string", U"35e6d253e0c21ac09fca");
   (U"common.is_signable", U"6932517519189d75eb93");
   (U"common.is_signature", U"cc04b1fcfd687d0beea7")].
Proof. reflexivity. Qed.
(* END SOURCE PINS *)

Print Assumptions C06_type_mismatch_never_accepted.
Print Assumptions C06_type_check_ignores_signatures.
Print Assumptions C06_strip_preserves_signable.
Print Assumptions C06_strip_preserves_delegation.
Print Assumptions C06_acceptance_depends_on_counting_only.
Print Assumptions C06_strip_preserves_root.
Print Assumptions C06_junk_never_helps_root.
Print Assumptions C06_source_pinned.

(* C11 -- repodata artifact signing is complete, faithful and client-verifiable. Property theorems only.
   sign_all_value is the procedure on the loaded JSON value; the file read/write around it is the canonical
   serializer (C07/C08), checked byte for byte by the correspondence. ed25519 is a parameter (see C09). *)
From CCT Require Import Prelude Hex Num Time Formats Json Auth Signing.
From CCT.Gen Require Pins.
From CCT.Gen Require Params.
From CCT.proofs Require Import HexFacts SigFacts AuthFacts SignableFacts DelegationFacts SchemaFacts FamilyFacts SigningFacts ArtifactFacts.
Open Scope N_scope.

Definition ed_sizes (ed_pub : bytes -> bytes) (ed_sign : bytes -> bytes -> bytes) : Prop :=
  (forall seed, length (ed_pub seed) = 32%nat /\ wf_bytes (ed_pub seed))
  /\ (forall seed m, length (ed_sign seed m) = 64%nat /\ wf_bytes (ed_sign seed m)).

(* equal to the original except for its signatures section *)
Theorem C11_keeps_other_fields : forall ed_pub ed_sign r keyhex r' k,
  sign_all_value ed_pub ed_sign r keyhex = Ok r' -> ustr_eqb k (U"signatures") = false ->
  subscript r' k = subscript r k.
Proof. exact sign_all_keeps_other_fields. Qed.

(* exactly one entry per artifact of packages and packages.conda (distinct names), stale entries gone, each the
   signer's well-formed signature, under the hex of its public key, over that artifact's own canonical metadata *)
Theorem C11_signatures_section : forall ed_pub ed_sign r keyhex r',
  sign_all_value ed_pub ed_sign r keyhex = Ok r' ->
  exists h seed pm cm sigs,
    keyhex = VStr h /\ fromhex h = Some seed
    /\ subscript r (U"packages") = Ok (VDict pm)
    /\ (subscript r (U"packages.conda") = Ok (VDict cm) \/ (subscript r (U"packages.conda") = Err KeyError /\ cm = []))
    /\ subscript r' (U"signatures") = Ok (VDict sigs)
    /\ (NoDup (map fst (pm ++ cm)) ->
          (forall k md, In (VStr k, md) (pm ++ cm) ->
             exists data, canonserialize md = Ok data
               /\ dget sigs k = Some (VDict [(VStr (hexlify (ed_pub seed)), sig_dict (VStr (hexlify (ed_sign seed data))))]))
          /\ (forall k, ~ In (VStr k) (map fst (pm ++ cm)) -> dget sigs k = None)).
Proof. exact sign_all_signatures. Qed.

Theorem C11_entry_wellformed : forall ed_pub ed_sign, ed_sizes ed_pub ed_sign -> forall seed data,
  is_hex_key (VStr (hexlify (ed_pub seed))) = true /\ is_signature (sig_dict (VStr (hexlify (ed_sign seed data)))) = true.
Proof.
  intros ? ? [H1 H2] seed data. split.
  - apply is_hex_key_iff. eexists. split; [reflexivity|]. apply (pubhex_key ed_pub H1).
  - apply is_signature_iff. left. apply (sig_of_raw ed_sign H2).
Qed.

Theorem C11_sign_again_changes_nothing : forall ed_pub ed_sign r keyhex r',
  sign_all_value ed_pub ed_sign r keyhex = Ok r' -> sign_all_value ed_pub ed_sign r' keyhex = Ok r'.
Proof. exact sign_all_idempotent. Qed.

(* a client verifies each entry against that artifact's own metadata through a pkg_mgr delegation to the signer.
   The guard (the artifact metadata is not itself well-formed delegating metadata) is forced by C06. *)
Theorem C11_client_verifies : forall ed_verify ed_pub ed_sign sha256, ed_sizes ed_pub ed_sign ->
  (forall seed m, ed_verify (ed_pub seed) m (ed_sign seed m) = true) ->
  forall seed md data T,
  canonserialize md = Ok data -> type_in md Params.serializable_types = true ->
  checkformat_delegating_metadata T = Ok tt ->
  role_rule T (U"pkg_mgr") = Ok (VList [VStr (hexlify (ed_pub seed))], VInt 1) ->
  checkformat_delegating_metadata (mk_env [] md) <> Ok tt -> checkformat_delegating_metadata (mk_env [] md) <> Unmodelled ->
  verify_delegation ed_verify sha256 (VStr (U"pkg_mgr"))
    (mk_env [(VStr (hexlify (ed_pub seed)), sig_dict (VStr (hexlify (ed_sign seed data))))] md) T (VBool false) = Ok tt.
Proof. intros ? ? ? ? [H1 H2] Hc. exact (client_verifies ed_verify ed_pub ed_sign sha256 H1 H2 Hc). Qed.

Theorem C11_no_cross_artifact : forall ed_verify ed_pub ed_sign sha256, ed_sizes ed_pub ed_sign ->
  (forall seed m m', ed_verify (ed_pub seed) m' (ed_sign seed m) = true -> m' = m) ->
  forall seed data md' data' kl t,
  canonserialize md' = Ok data' -> data' <> data ->
  verify_signable ed_verify sha256
    (mk_env [(VStr (hexlify (ed_pub seed)), sig_dict (VStr (hexlify (ed_sign seed data))))] md') (VList kl) t (VBool false) <> Ok tt.
Proof. intros ? ? ? ? [H1 H2] Hb. exact (no_cross_artifact ed_verify ed_pub ed_sign sha256 H1 H2 Hb). Qed.

(* non-vacuity: two artifacts, a stale entry and an extra field; signing replaces the section and is idempotent *)
Definition ex_repo :=
  VDict [(VStr (U"info"), VDict [(VStr (U"subdir"), VStr (U"noarch"))]);
         (VStr (U"signatures"), VDict [(VStr (U"stale.tar.bz2"), VInt 1)]);
         (VStr (U"packages"), VDict [(VStr (U"a.tar.bz2"), VDict [(VStr (U"name"), VStr (U"a"))])]);
         (VStr (U"packages.conda"), VDict [(VStr (U"b.conda"), VDict [(VStr (U"name"), VStr (U"b"))])])].
Definition toy_pub (seed : bytes) : bytes := repeat 7 32.
Definition toy_sign (seed m : bytes) : bytes := repeat 9 64.
Example C11_witness :
  match sign_all_value toy_pub toy_sign ex_repo (VStr (repeat 49 64)) with
  | Ok r' => sign_all_value toy_pub toy_sign r' (VStr (repeat 49 64)) = Ok r'
             /\ match subscript r' (U"signatures") with
                | Ok (VDict sigs) => length sigs = 2%nat /\ dhas sigs (U"a.tar.bz2") = true /\ dhas sigs (U"b.conda") = true
                                     /\ dhas sigs (U"stale.tar.bz2") = false
                | _ => False end
             /\ subscript r' (U"info") = subscript ex_repo (U"info")
  | _ => False
  end.
Proof. vm_compute. repeat split. Qed.

(* BEGIN SOURCE PINS -- written by harness/mkpins.py; the list is what Gen/Pins.v held for the tree the model was validated against *)
(* the functions of the package this property depends on (call-graph closure of its entry points), each with the fingerprint of its
   logic (AST without docstrings, annotations, messages, local names): the model and the correspondence runs were validated against
   exactly these; a change of logic in any of them breaks this obligation and the check then searches for a failing input *)
Theorem C11_source_pinned : CCT.Gen.Pins.pinned_C11 =
  [(U"authentication._ascii", U"5f6fc6aad21f14d47c4f");
   (U"authentication.verify_delegation", U"5dc5b9065823f0f50085");
   (U"authentication.verify_gpg_signature", U"ccbe2bc800d02410d16b");
   (U"authentication.verify_signable", U"1bd56f9b4f5e7bcd88d9");
   (U"authentication.verify_signature", U"7e0a2d567df7e9f0cdd4");
   (U"common.MixinKey.from_hex", U"a6e4e81c0b16461490a5");
   (U"common.MixinKey.to_hex", U"fcdaef7ed3d503ba84df");
   (U"common.PrivateKey.from_bytes", U"2cb488fc935b61f65bba");
   (U"common.PrivateKey.to_bytes", U"c9564ea6ce46886b972b");
   (U"common.PublicKey.from_bytes", U"a439db0d070397bc2b47");
   (U"common.PublicKey.to_bytes", U"1167c2299d20a5c711f2");
   (U"common.canonserialize", U"64fc1dee1d7349d7a920");
   (U"common.checkformat_any_signature", U"82ba0ed515a770fad8a9");
   (U"common.checkformat_byteslike", U"1c9da61d15ff3a1a9f97");
   (U"common.checkformat_delegating_metadata", U"b013c9fa5677f3b3f637");
   (U"common.checkformat_delegation", U"25fc9c6692b07cdca131");
   (U"common.checkformat_delegations", U"d6a7d445f5f827a1471c");
   (U"common.checkformat_gpg_fingerprint", U"86e3bb7e4431fb481dc5");
   (U"common.checkformat_gpg_signature", U"a3c5515ffb8c9f6183ba");
   (U"common.checkformat_hex_key", U"625afdf8f56eb4c97143");
   (U"common.checkformat_hex_string", U"eac17f8be3d488d4b8a0");
   (U"common.checkformat_key", U"d3466826154e389f099e");
   (U"common.checkformat_list_of_hex_keys", U"4c9121b74cf062a7e2fd");
   (U"common.checkformat_natural_int", U"14f9984b8b7ef6014787");
   (U"common.checkformat_signable", U"dbb8b00a3a3727e018da");
   (U"common.checkformat_signature", U"d544854022da28dcc399");
   (U"common.checkformat_string", U"a139d0a4113d71e93d9f");
   (U"common.checkformat_utc_isoformat", U"6fed4a2332e7258f7147");
   (U"common.is_gpg_signature", U"f236e9c50126a7909e84");
   (U"common.is_hex_key", U"63c7822022cd24f926e2");
   (U"common.is_hex_signature", U"433f44075f931ec629d6");
   (U"common.is_hex_string", U"35e6d253e0c21ac09fca");
   (U"common.is_signable", U"6932517519189d75eb93");
   (U"common.is_signature", U"cc04b1fcfd687d0beea7");
   (U"common.load_metadata_from_file", U"f65eb5087b9ad786f4ff");
   (U"common.write_metadata_to_file", U"7e7340650f276f577b2b");
   (U"signing.serialize_and_sign", U"b494a1c320877296ecf6");
   (U"signing.sign_all_in_repodata", U"acae37496ef25356cf28")].
Proof. reflexivity. Qed.
(* END SOURCE PINS *)

Print Assumptions C11_keeps_other_fields.
Print Assumptions C11_signatures_section.
Print Assumptions C11_entry_wellformed.
Print Assumptions C11_sign_again_changes_nothing.
Print Assumptions C11_client_verifies.
Print Assumptions C11_no_cross_artifact.
Print Assumptions C11_witness.
Print Assumptions C11_source_pinned.

(* C05 / C06, source tie -- verify_delegation AS WRITTEN in authentication.py: translated from the working tree on every run (Gen/Source.v,
   by harness/translate_src.py: default parameter, keyword-argument call, try / except / else, dict display), its body interpreted by
   PySrc.run_body with the translated program of common.py for the package functions it calls and with the MODEL answering for the one
   callee outside the program, verify_signable (which holds the cryptography and is tied by pins and correspondence, C01/C02).
   Property theorems only.  Tie obligations (see props/C15_src.v). *)
From Coq Require Import String.
From CCT Require Import Prelude Hex Num Time Formats Json Auth PySrc.
From CCT.Gen Require Source.
From CCT.proofs Require DelegationFacts.
From CCT.proofs Require Import SourceFacts SourceEnvFacts SourceDmFacts SourceAuthFacts.

Theorem C05src_translated :
  existsb (fun p => String.eqb (fst p) "verify_delegation") Source.partial_entries = true
  /\ existsb (fun p => String.eqb (fst p) "verify_delegation" && match snd p with ["verify_signable"%string] => true | _ => false end) Source.partial_entries = true.
Proof. split; reflexivity. Qed.

(* the callee the body runs with, spelled out *)
Theorem C05src_callee_meaning : forall ed_verify sha256 f args,
  deleg_callee ed_verify sha256 f args =
  if String.eqb f "verify_signable" then
    match args with [s; K; t; g] => verify_signable ed_verify sha256 s K t g ;;; Ok VNone | _ => Err TypeError end
  else run_prog Source.program f args.
Proof. intros. reflexivity. Qed.

(* side conditions: the flag is a bool; the trusted metadata and the probe built from the untrusted signed part meet the conditions of the
   checker's refinement (C14_src); the untrusted envelope has pairwise distinct keys of builtin types *)
Theorem C05src_inputs_ok_meaning : forall u t g,
  deleg_inputs_ok u t g <->
  (exists b, g = VBool b) /\ checker_input_ok t /\ dict_ok u
  /\ (forall sd, subscript u (U"signed") = Ok sd -> checker_input_ok (probe sd)).
Proof. intros. reflexivity. Qed.

(* the function in the source is the model's: same verdict, same exception class, for every role name of every type *)
Theorem C05src_verify_delegation_refines : forall ed_verify sha256 name u t g, deleg_inputs_ok u t g ->
  run_body (deleg_callee ed_verify sha256) Source.src_verify_delegation [name; u; t; g]
  = (verify_delegation ed_verify sha256 name u t g ;;; Ok VNone).
Proof. exact src_verify_delegation. Qed.

(* C05 of the source text: it returns exactly when the trusted metadata is well formed, delegates a role of exactly that name, the type
   test passes, and the key list and threshold listed for THAT role are met by the signatures on the untrusted metadata *)
Theorem C05src_verify_delegation_iff : forall ed_verify sha256 name u t g, deleg_inputs_ok u t g ->
  (run_body (deleg_callee ed_verify sha256) Source.src_verify_delegation [name; u; t; g] = Ok VNone <->
   exists nm keys th,
     name = VStr nm /\ gpg_flag_ok g = true
     /\ checkformat_delegating_metadata t = Ok tt /\ is_signable u = true
     /\ DelegationFacts.type_check u nm = Ok tt
     /\ DelegationFacts.role_rule t nm = Ok (keys, th)
     /\ verify_signable ed_verify sha256 u keys th g = Ok tt).
Proof. exact src_verify_delegation_iff. Qed.

Print Assumptions C05src_translated.
Print Assumptions C05src_callee_meaning.
Print Assumptions C05src_inputs_ok_meaning.
Print Assumptions C05src_verify_delegation_refines.
Print Assumptions C05src_verify_delegation_iff.

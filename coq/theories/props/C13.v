(* C13 -- failures are fail-closed and use the documented error families. Property theorems only.
   fam P r  :=  r is Ok _, or Err e with e in P, or the explicit Unmodelled marker (inputs outside the
   modelled fragment: dicts with non-str keys reaching the serializer or sorted(), float tokens outside the
   JSON grammar). KeyError, AttributeError, OverflowError, AssertionError belong to none of the families.
   StructError (struct.pack(">I", n) with n >= 2^32) can only arise from OpenPGP headers of 4 GiB or more
   (C13_struct_error_needs_4GiB); the is_* predicates are total bool-valued functions by construction. *)
From CCT Require Import Prelude Hex Num Time Formats Json Auth.
From CCT.Gen Require Params.
From CCT.proofs Require Import HexFacts SigFacts AuthFacts SignableFacts DelegationFacts RootFacts SchemaFacts FamilyFacts.
Open Scope N_scope.

Theorem C13_families_meaning : forall e,
  (f_tv e = true <-> e = TypeError \/ e = ValueError)
  /\ (f_sig1 e = true <-> e = TypeError \/ e = ValueError \/ e = InvalidSignature \/ e = StructError)
  /\ (f_signable e = true <-> e = TypeError \/ e = ValueError \/ e = SignatureError \/ e = StructError)
  /\ (f_lib e = true <-> e = TypeError \/ e = ValueError \/ e = SignatureError \/ e = MetadataVerificationError
                         \/ e = UnknownRoleError \/ e = StructError).
Proof. intros e. destruct e; cbn; repeat split; intros H; auto 8; try discriminate; repeat (destruct H as [H|H]; try discriminate H); try discriminate H. Qed.

(* validators: TypeError or ValueError, for every Python value *)
Theorem C13_validators_family : forall v,
  fam f_tv (checkformat_hex_string v) /\ fam f_tv (checkformat_hex_key v) /\ fam f_tv (checkformat_signable v)
  /\ fam f_tv (checkformat_byteslike v) /\ fam f_tv (checkformat_natural_int v) /\ fam f_tv (checkformat_string v)
  /\ fam f_tv (checkformat_expiration_distance v) /\ fam f_tv (checkformat_list_of_hex_keys v)
  /\ fam f_tv (checkformat_utc_isoformat v) /\ fam f_tv (checkformat_gpg_fingerprint v)
  /\ fam f_tv (checkformat_gpg_signature v) /\ fam f_tv (checkformat_signature v)
  /\ fam f_tv (checkformat_any_signature v) /\ fam f_tv (checkformat_delegation v)
  /\ fam f_tv (checkformat_delegations v) /\ fam f_tv (checkformat_delegating_metadata v)
  /\ fam f_tv (canonserialize v).
Proof.
  intros v. repeat split;
    [apply fam_hex_string|apply fam_hex_key|apply fam_signable|apply fam_byteslike|apply fam_natural_int
    |apply fam_string|apply fam_expiration_distance|apply fam_list_of_hex_keys|apply fam_utc
    |apply fam_gpg_fingerprint|apply fam_gpg_signature|apply fam_signature|apply fam_any_signature
    |apply fam_delegation|apply fam_delegations|apply fam_cdm|apply fam_canonserialize].
Qed.

(* verifiers, for every tuple of Python values and every verification primitive *)
Theorem C13_verify_signature_family : forall ed_verify sg pk data, fam f_sig1 (verify_signature ed_verify sg pk data).
Proof. exact fam_verify_signature. Qed.
Theorem C13_verify_gpg_signature_family : forall ed_verify sha256 sg k data,
  fam f_sig1 (verify_gpg_signature ed_verify sha256 sg k data).
Proof. exact fam_verify_gpg_signature. Qed.
Theorem C13_verify_signable_family : forall ed_verify sha256 s K t gpg,
  fam f_signable (verify_signable ed_verify sha256 s K t gpg).
Proof. exact fam_verify_signable. Qed.
Theorem C13_verify_delegation_family : forall ed_verify sha256 name u t gpg,
  fam f_lib (verify_delegation ed_verify sha256 name u t gpg).
Proof. exact fam_verify_delegation. Qed.
Theorem C13_verify_root_family : forall ed_verify sha256 t u, fam f_lib (verify_root ed_verify sha256 t u).
Proof. exact fam_verify_root. Qed.

Theorem C13_struct_error_needs_4GiB : forall d h, frame d h = Err StructError -> 4294967296 <= N.of_nat (length h).
Proof. intros d h. unfold frame, be32. destruct (N.of_nat (length h) <? 4294967296) eqn:E; [discriminate|]. intros _. apply N.ltb_ge; auto. Qed.

(* the error map *)
Theorem C13_insufficient_signatures_is_signature_error : forall ed_verify sha256 s kl tz gpg sd data sm,
  is_signable s = true -> forallb is_hex_key kl = true -> (1 <= tz)%Z ->
  subscript s (U"signed") = Ok sd -> canonserialize sd = Ok data ->
  subscript s (U"signatures") = Ok (VDict sm) ->
  total_on (entry_counts ed_verify sha256 (py_truth gpg) kl data) sm ->
  verify_signable ed_verify sha256 s (VList kl) (VInt tz) gpg <> Ok tt ->
  verify_signable ed_verify sha256 s (VList kl) (VInt tz) gpg = Err SignatureError.
Proof. intros. eapply accept_iff_enough; eauto. Qed.

Theorem C13_undelegated_role_is_unknown_role_error : forall ed_verify sha256 nm u t gpg ts dl,
  gpg_flag_ok gpg = true -> checkformat_delegating_metadata t = Ok tt -> is_signable u = true ->
  type_check u nm = Ok tt ->
  subscript t (U"signed") = Ok ts -> subscript ts (U"delegations") = Ok dl -> py_in_str nm dl = Ok false ->
  verify_delegation ed_verify sha256 (VStr nm) u t gpg = Err UnknownRoleError.
Proof. exact unknown_role. Qed.

Theorem C13_version_mismatch_is_metadata_verification_error : forall ed_verify sha256 t u tv uv tz,
  checkformat_delegating_metadata t = Ok tt -> checkformat_delegating_metadata u = Ok tt ->
  view t = Ok tv -> view u = Ok uv ->
  rv_type tv = VStr (U"root") -> rv_type uv = VStr (U"root") ->
  int_value (rv_version tv) = Some tz -> int_value (rv_version uv) <> Some (tz + 1)%Z ->
  verify_root ed_verify sha256 t u = Err MetadataVerificationError.
Proof. exact version_mismatch_error. Qed.

Theorem C13_type_mismatch_is_metadata_verification_error : forall ed_verify sha256 nm sm sd t gpg ty,
  gpg_flag_ok gpg = true -> checkformat_delegating_metadata t = Ok tt -> is_signable (mk_env sm sd) = true ->
  checkformat_delegating_metadata (mk_env [] sd) = Ok tt -> subscript sd (U"type") = Ok ty -> str_ne ty nm = true ->
  verify_delegation ed_verify sha256 (VStr nm) (mk_env sm sd) t gpg = Err MetadataVerificationError.
Proof. exact type_mismatch_error. Qed.

(* non-vacuity: inputs that used to leave the families on the pinned tree (D3, D4) now stay inside *)
Example C13_witness :
  checkformat_natural_int (VFloat (U"Infinity")) = Err ValueError
  /\ checkformat_natural_int (VFloat (U"NaN")) = Err ValueError
  /\ checkformat_delegation (VDict [(VStr (U"pubkeys"), VList []); (VStr (U"threshold"), VNone)]) = Err TypeError
  /\ verify_signable (fun _ _ _ => true) (fun b => b) (VList []) (VList []) (VInt 1) (VBool false) = Err TypeError.
Proof. vm_compute. repeat split. Qed.

Print Assumptions C13_families_meaning.
Print Assumptions C13_validators_family.
Print Assumptions C13_verify_signature_family.
Print Assumptions C13_verify_gpg_signature_family.
Print Assumptions C13_verify_signable_family.
Print Assumptions C13_verify_delegation_family.
Print Assumptions C13_verify_root_family.
Print Assumptions C13_struct_error_needs_4GiB.
Print Assumptions C13_insufficient_signatures_is_signature_error.
Print Assumptions C13_undelegated_role_is_unknown_role_error.
Print Assumptions C13_version_mismatch_is_metadata_verification_error.
Print Assumptions C13_type_mismatch_is_metadata_verification_error.
Print Assumptions C13_witness.

(* C13 -- failures are fail-closed and use the documented error families. Property theorems only.
   fam P r  :=  r is Ok _, or Err e with e in P, or the explicit Unmodelled marker (inputs outside the
   modelled fragment: dicts with non-str keys reaching the serializer or sorted(), float tokens outside the
   JSON grammar). KeyError, AttributeError, OverflowError, AssertionError belong to none of the families.
   StructError (struct.pack(">I", n) with n >= 2^32) can only arise from OpenPGP headers of 4 GiB or more
   (C13_struct_error_needs_4GiB); the is_* predicates are total bool-valued functions by construction. *)
From CCT Require Import Prelude Hex Num Time Formats Json Auth.
From CCT.Gen Require Pins.
From CCT.Gen Require Params.
From CCT.proofs Require Import HexFacts SigFacts AuthFacts SignableFacts DelegationFacts RootFacts SchemaFacts FamilyFacts.
Open Scope N_scope.

Theorem C13_families_meaning : forall e,
  (f_tv e = true <-> e = TypeError \/ e = ValueError)
  /\ (f_sig1 e = true <-> e = TypeError \/ e = ValueError \/ e = InvalidSignature \/ e = StructError)
  /\ (f_signable e = true <-> e = TypeError \/ e = ValueError \/ e = SignatureError \/ e = StructError)
  /\ (f_lib e = true <-> e = TypeError \/ e = ValueError \/ e = SignatureError \/ e = MetadataVerificationError
                         \/ e = UnknownRoleError \/ e = StructError).
Proof. intros e. destruct e; cbn; repeat split; intros H; auto 8; try discriminate; repeat (destruct H as [H|H]; try discriminate H); try discriminate H. Qed.

(* validators: TypeError or ValueError, for every Python value *)
Theorem C13_validators_family : forall v,
  fam f_tv (checkformat_hex_string v) /\ fam f_tv (checkformat_hex_key v) /\ fam f_tv (checkformat_signable v)
  /\ fam f_tv (checkformat_byteslike v) /\ fam f_tv (checkformat_natural_int v) /\ fam f_tv (checkformat_string v)
  /\ fam f_tv (checkformat_expiration_distance v) /\ fam f_tv (checkformat_list_of_hex_keys v)
  /\ fam f_tv (checkformat_utc_isoformat v) /\ fam f_tv (checkformat_gpg_fingerprint v)
  /\ fam f_tv (checkformat_gpg_signature v) /\ fam f_tv (checkformat_signature v)
  /\ fam f_tv (checkformat_any_signature v) /\ fam f_tv (checkformat_delegation v)
  /\ fam f_tv (checkformat_delegations v) /\ fam f_tv (checkformat_delegating_metadata v)
  /\ fam f_tv (canonserialize v).
Proof.
  intros v. repeat split;
    [apply fam_hex_string|apply fam_hex_key|apply fam_signable|apply fam_byteslike|apply fam_natural_int
    |apply fam_string|apply fam_expiration_distance|apply fam_list_of_hex_keys|apply fam_utc
    |apply fam_gpg_fingerprint|apply fam_gpg_signature|apply fam_signature|apply fam_any_signature
    |apply fam_delegation|apply fam_delegations|apply fam_cdm|apply fam_canonserialize].
Qed.

(* verifiers, for every tuple of Python values and every verification primitive *)
Theorem C13_verify_signature_family : forall ed_verify sg pk data, fam f_sig1 (verify_signature ed_verify sg pk data).
Proof. exact fam_verify_signature. Qed.
Theorem C13_verify_gpg_signature_family : forall ed_verify sha256 sg k data,
  fam f_sig1 (verify_gpg_signature ed_verify sha256 sg k data).
Proof. exact fam_verify_gpg_signature. Qed.
Theorem C13_verify_signable_family : forall ed_verify sha256 s K t gpg,
  fam f_signable (verify_signable ed_verify sha256 s K t gpg).
Proof. exact fam_verify_signable. Qed.
Theorem C13_verify_delegation_family : forall ed_verify sha256 name u t gpg,
  fam f_lib (verify_delegation ed_verify sha256 name u t gpg).
Proof. exact fam_verify_delegation. Qed.
Theorem C13_verify_root_family : forall ed_verify sha256 t u, fam f_lib (verify_root ed_verify sha256 t u).
Proof. exact fam_verify_root. Qed.

Theorem C13_struct_error_needs_4GiB : forall d h, frame d h = Err StructError -> 4294967296 <= N.of_nat (length h).
Proof. intros d h. unfold frame, be32. destruct (N.of_nat (length h) <? 4294967296) eqn:E; [discriminate|]. intros _. apply N.ltb_ge; auto. Qed.

(* the error map *)
Theorem C13_insufficient_signatures_is_signature_error : forall ed_verify sha256 s kl tz gpg sd data sm,
  is_signable s = true -> forallb is_hex_key kl = true -> (1 <= tz)%Z ->
  subscript s (U"signed") = Ok sd -> canonserialize sd = Ok data ->
  subscript s (U"signatures") = Ok (VDict sm) ->
  total_on (entry_counts ed_verify sha256 (py_truth gpg) kl data) sm ->
  verify_signable ed_verify sha256 s (VList kl) (VInt tz) gpg <> Ok tt ->
  verify_signable ed_verify sha256 s (VList kl) (VInt tz) gpg = Err SignatureError.
Proof. intros. eapply accept_iff_enough; eauto. Qed.

Theorem C13_undelegated_role_is_unknown_role_error : forall ed_verify sha256 nm u t gpg ts dl,
  gpg_flag_ok gpg = true -> checkformat_delegating_metadata t = Ok tt -> is_signable u = true ->
  type_check u nm = Ok tt ->
  subscript t (U"signed") = Ok ts -> subscript ts (U"delegations") = Ok dl -> py_in_str nm dl = Ok false ->
  verify_delegation ed_verify sha256 (VStr nm) u t gpg = Err UnknownRoleError.
Proof. exact unknown_role. Qed.

Theorem C13_version_mismatch_is_metadata_verification_error : forall ed_verify sha256 t u tv uv tz,
  checkformat_delegating_metadata t = Ok tt -> checkformat_delegating_metadata u = Ok tt ->
  view t = Ok tv -> view u = Ok uv ->
  rv_type tv = VStr (U"root") -> rv_type uv = VStr (U"root") ->
  int_value (rv_version tv) = Some tz -> int_value (rv_version uv) <> Some (tz + 1)%Z ->
  verify_root ed_verify sha256 t u = Err MetadataVerificationError.
Proof. exact version_mismatch_error. Qed.

Theorem C13_type_mismatch_is_metadata_verification_error : forall ed_verify sha256 nm sm sd t gpg ty,
  gpg_flag_ok gpg = true -> checkformat_delegating_metadata t = Ok tt -> is_signable (mk_env sm sd) = true ->
  checkformat_delegating_metadata (mk_env [] sd) = Ok tt -> subscript sd (U"type") = Ok ty -> str_ne ty nm = true ->
  verify_delegation ed_verify sha256 (VStr nm) (mk_env sm sd) t gpg = Err MetadataVerificationError.
Proof. exact type_mismatch_error. Qed.

(* non-vacuity: inputs that used to leave the families on the pinned tree (D3, D4) now stay inside *)
Example C13_witness :
  checkformat_natural_int (VFloat (U"Infinity")) = Err ValueError
  /\ checkformat_natural_int (VFloat (U"NaN")) = Err ValueError
  /\ checkformat_delegation (VDict [(VStr (U"pubkeys"), VList []); (VStr (U"threshold"), VNone)]) = Err TypeError
  /\ verify_signable (fun _ _ _ => true) (fun b => b) (VList []) (VList []) (VInt 1) (VBool false) = Err TypeError.
Proof. vm_compute. repeat split. Qed.

(* BEGIN SOURCE PINS -- written by harness/mkpins.py; the list is what Gen/Pins.v held for the tree the model was validated against *)
(* the functions of the package this property depends on (call-graph closure of its entry points), each with the fingerprint of its
   logic (AST without docstrings, annotations, messages, local names): the model and the correspondence runs were validated against
   exactly these; a change of logic in any of them breaks this obligation and the check then searches for a failing input *)
Theorem C13_source_pinned : CCT.Gen.Pins.pinned_C13 =
  [(U"authentication._ascii", U"5f6fc6aad21f14d47c4f");
   (U"authentication.verify_delegation", U"5dc5b9065823f0f50085");
   (U"authentication.verify_gpg_signature", U"ccbe2bc800d02410d16b");
   (U"authentication.verify_root", U"6692242951185dc7604b");
   (U"authentication.verify_signable", U"1bd56f9b4f5e7bcd88d9");
   (U"authentication.verify_signature", U"7e0a2d567df7e9f0cdd4");
   (U"common.MixinKey.from_hex", U"a6e4e81c0b16461490a5");
   (U"common.MixinKey.is_equivalent_to", U"5700e1899e36ca2341bb");
   (U"common.PrivateKey.from_bytes", U"2cb488fc935b61f65bba");
   (U"common.PrivateKey.to_bytes", U"c9564ea6ce46886b972b");
   (U"common.PublicKey.from_bytes", U"a439db0d070397bc2b47");
   (U"common.PublicKey.to_bytes", U"1167c2299d20a5c711f2");
   (U"common.canonserialize", U"64fc1dee1d7349d7a920");
   (U"common.checkformat_any_signature", U"82ba0ed515a770fad8a9");
   (U"common.checkformat_byteslike", U"1c9da61d15ff3a1a9f97");
   (U"common.checkformat_delegating_metadata", U"b013c9fa5677f3b3f637");
   (U"common.checkformat_delegation", U"25fc9c6692b07cdca131");
   (U"common.checkformat_delegations", U"d6a7d445f5f827a1471c");
   (U"common.checkformat_expiration_distance", U"65fe8ef409fef94d863f");
   (U"common.checkformat_gpg_fingerprint", U"86e3bb7e4431fb481dc5");
   (U"common.checkformat_gpg_signature", U"a3c5515ffb8c9f6183ba");
   (U"common.checkformat_hex_key", U"625afdf8f56eb4c97143");
   (U"common.checkformat_hex_string", U"eac17f8be3d488d4b8a0");
   (U"common.checkformat_key", U"d3466826154e389f099e");
   (U"common.checkformat_list_of_hex_keys", U"4c9121b74cf062a7e2fd");
   (U"common.checkformat_natural_int", U"14f9984b8b7ef6014787");
   (U"common.checkformat_signable", U"dbb8b00a3a3727e018da");
   (U"common.checkformat_signature", U"d544854022da28dcc399");
   (U"common.checkformat_string", U"a139d0a4113d71e93d9f");
   (U"common.checkformat_utc_isoformat", U"6fed4a2332e7258f7147");
   (U"common.is_gpg_fingerprint", U"fd061164635908ebd7f2");
   (U"common.is_gpg_signature", U"f236e9c50126a7909e84");
   (U"common.is_hex_key", U"63c7822022cd24f926e2");
   (U"common.is_hex_signature", U"433f44075f931ec629d6");
   (U"common.is_hex_string", U"35e6d253e0c21ac09fca");
   (U"common.is_signable", U"6932517519189d75eb93");
   (U"common.is_signature", U"cc04b1fcfd687d0beea7")].
Proof. reflexivity. Qed.
(* END SOURCE PINS *)

Print Assumptions C13_families_meaning.
Print Assumptions C13_validators_family.
Print Assumptions C13_verify_signature_family.
Print Assumptions C13_verify_gpg_signature_family.
Print Assumptions C13_verify_signable_family.
Print Assumptions C13_verify_delegation_family.
Print Assumptions C13_verify_root_family.
Print Assumptions C13_struct_error_needs_4GiB.
Print Assumptions C13_insufficient_signatures_is_signature_error.
Print Assumptions C13_undelegated_role_is_unknown_role_error.
Print Assumptions C13_version_mismatch_is_metadata_verification_error.
Print Assumptions C13_type_mismatch_is_metadata_verification_error.
Print Assumptions C13_witness.
Print Assumptions C13_source_pinned.

(* C03 / C04, source tie -- verify_root AS WRITTEN in authentication.py: translated from the working tree on every run (Gen/Source.v, by
   harness/translate_src.py: the loop over a tuple display, int(...) + 1, keyword-argument calls), its body interpreted by PySrc.run_body
   with the translated program of common.py for the package functions it calls and the MODEL answering for verify_signable.
   Property theorems only.  Tie obligations (see props/C15_src.v). *)
From Coq Require Import String.
From CCT Require Import Prelude Hex Num Time Formats Json Auth PySrc.
From CCT.Gen Require Source.
From CCT.proofs Require Import HexFacts SigFacts AuthFacts SignableFacts DelegationFacts RootFacts.
From CCT.proofs Require Import SourceFacts SourceDmFacts SourceAuthFacts SourceRootFacts.
Open Scope N_scope.

Theorem C03src_translated :
  existsb (fun p => String.eqb (fst p) "verify_root" && match snd p with ["verify_signable"%string] => true | _ => false end) Source.partial_entries = true.
Proof. reflexivity. Qed.

Theorem C03src_inputs_ok_meaning : forall t u, root_inputs_ok t u <-> checker_input_ok t /\ checker_input_ok u.
Proof. intros. reflexivity. Qed.

(* the function in the source is the model's: same verdict, same exception class *)
Theorem C03src_verify_root_refines : forall ed_verify sha256 t u, root_inputs_ok t u ->
  run_body (deleg_callee ed_verify sha256) Source.src_verify_root [t; u] = (verify_root ed_verify sha256 t u ;;; Ok VNone).
Proof. exact src_verify_root. Qed.

(* C03 of the source text: it returns exactly when both are well-formed root metadata, the new version is the trusted version plus
   one, and the OpenPGP-mode signatures on the new metadata meet the trusted root's rule and the rule the new metadata declares *)
Theorem C03src_verify_root_iff : forall ed_verify sha256 t u, root_inputs_ok t u ->
  (run_body (deleg_callee ed_verify sha256) Source.src_verify_root [t; u] = Ok VNone <->
   checkformat_delegating_metadata t = Ok tt /\ checkformat_delegating_metadata u = Ok tt /\
   exists tv uv tz,
     view t = Ok tv /\ view u = Ok uv
     /\ rv_type tv = VStr (U"root") /\ rv_type uv = VStr (U"root")
     /\ int_value (rv_version tv) = Some tz /\ int_value (rv_version uv) = Some (tz + 1)%Z
     /\ verify_signable ed_verify sha256 u (rv_keys tv) (rv_threshold tv) (VBool true) = Ok tt
     /\ verify_signable ed_verify sha256 u (rv_keys uv) (rv_threshold uv) (VBool true) = Ok tt).
Proof. exact src_verify_root_iff. Qed.

Print Assumptions C03src_translated.
Print Assumptions C03src_inputs_ok_meaning.
Print Assumptions C03src_verify_root_refines.
Print Assumptions C03src_verify_root_iff.

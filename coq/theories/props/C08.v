(* C08 -- persisting metadata never changes its trust status. Property theorems only.
   write_metadata_to_file = the canonical serializer, load_metadata_from_file = json.load (the parser model of C07).
   Domain: jdom (see C07). *)
From CCT Require Import Prelude Hex Num Time Formats Json JsonParse Auth Signing.
From CCT.Gen Require Pins.
From CCT.Gen Require Params.
From CCT.proofs Require Import HexFacts SigFacts AuthFacts SignableFacts SchemaFacts FamilyFacts SigningFacts JsonLexFacts SortFacts JsonFacts PersistFacts
     DelegationFacts RootFacts PersistSchemaFacts DecidedFacts.
Open Scope N_scope.

(* write then load yields the same JSON value (its canonical form) *)
Theorem C08_load_write : forall v, jdom v = true -> store_load v = Ok (canon v).
Proof. exact load_write. Qed.

Theorem C08_loaded_is_same_value : forall v, jdom v = true ->
  canon (canon v) = canon v /\ canonserialize (canon v) = canonserialize v /\ jdom (canon v) = true.
Proof. intros v Hd. split; [apply canon_idem; auto|]. split; [apply bytes_unchanged; auto|apply jdom_canon; auto]. Qed.

(* the file written is itself in canonical form: parsing it and serializing again gives the same bytes *)
Theorem C08_file_is_canonical : forall v b, jdom v = true -> canonserialize v = Ok b ->
  exists v', load_bytes b = Some v' /\ canonserialize v' = Ok b.
Proof.
  intros v b Hd Hs. destruct (ser_fixpoint v b Hd Hs) as (v' & H1 & H2 & _). exists v'. split; [|exact H2].
  unfold canonserialize in Hs. rewrite ser_pser in Hs by exact Hd. injection Hs as <-.
  unfold load_bytes. rewrite (load_file_canonical v Hd). rewrite (parse_pser v Hd) in H1. exact H1.
Qed.

(* the byte layer of json.load (encoding guess, byte-order mark, UTF-8 decoding with surrogatepass) is the identity on what the
   library writes: canonical text is ASCII without NUL *)
Theorem C08_load_file_canonical : forall v, jdom v = true -> load_file (pser 0 v) = Ok (canon v).
Proof. exact load_file_canonical. Qed.

(* any number of write/load cycles *)
Theorem C08_cycles_stable : forall n v, jdom v = true -> cycles (S n) v = Ok (canon v).
Proof. exact cycles_stable. Qed.

(* an envelope comes back as an envelope: payload bytes unchanged, every signature entry still filed under its key
   and equal as a JSON value *)
Theorem C08_persist_envelope : forall s sm sd,
  jdom s = true -> is_signable s = true -> subscript s (U"signatures") = Ok (VDict sm) -> subscript s (U"signed") = Ok sd ->
  is_signable (canon s) = true
  /\ subscript (canon s) (U"signed") = Ok (canon sd)
  /\ canonserialize (canon sd) = canonserialize sd
  /\ (exists sm', subscript (canon s) (U"signatures") = Ok (VDict sm') /\ canon (VDict sm) = VDict sm'
                  /\ forall k, dget sm' k = option_map canon (dget sm k)).
Proof.
  intros s sm sd Hd Hs Esg Esd. split; [apply is_signable_canon; auto|]. exact (persist_envelope s sm sd Hd Hs Esg Esd).
Qed.

(* the verdict of the envelope verifier is the same before and after persisting, for every key list, threshold and mode *)
Theorem C08_persist_keeps_verdict : forall ed_verify sha256 s K t gpg sm,
  jdom s = true -> subscript s (U"signatures") = Ok (VDict sm) ->
  (py_truth gpg = true -> Forall (fun kv => entry_small (snd kv)) sm) ->
  (verify_signable ed_verify sha256 (canon s) K t gpg = Ok tt <-> verify_signable ed_verify sha256 s K t gpg = Ok tt).
Proof. exact persist_keeps_verdict. Qed.

(* each entry counts after persisting iff it counted before *)
Theorem C08_entry_validity_preserved : forall ed_verify sha256 gpg kl data k v, jdom v = true ->
  (valid_entry ed_verify sha256 gpg kl data k (canon v) <-> valid_entry ed_verify sha256 gpg kl data k v).
Proof. exact valid_entry_canon. Qed.

(* the documented schema of delegating metadata (C14) holds of the loaded document iff it held of the stored one *)
Theorem C08_schema_verdict_preserved : forall v, jdom v = true ->
  (checkformat_delegating_metadata (canon v) = Ok tt <-> checkformat_delegating_metadata v = Ok tt).
Proof. exact cdm_canon. Qed.

(* the rule a verifier reads for a role from well-formed trusted metadata is the same after persisting *)
Theorem C08_role_rule_preserved : forall t nm, jdom t = true -> checkformat_delegating_metadata t = Ok tt ->
  role_rule (canon t) nm = role_rule t nm.
Proof. intros t nm Hd H. apply role_rule_canon; [exact Hd|apply checker_iff_schema; exact H]. Qed.

(* verify_delegation: same verdict on (loaded payload, loaded trusted metadata) as on the objects before storing *)
Theorem C08_delegation_verdict_preserved : forall ed_verify sha256 name u t gpg,
  jdom u = true -> jdom t = true ->
  (forall sm, subscript u (U"signatures") = Ok (VDict sm) -> py_truth gpg = true -> Forall (fun kv => entry_small (snd kv)) sm) ->
  (verify_delegation ed_verify sha256 name (canon u) (canon t) gpg = Ok tt <-> verify_delegation ed_verify sha256 name u t gpg = Ok tt).
Proof. exact delegation_verdict_persists_total. Qed.

(* verify_root: same verdict on the loaded pair as on the pair before storing *)
Theorem C08_root_verdict_preserved : forall ed_verify sha256 t u,
  jdom t = true -> jdom u = true ->
  (forall sm, subscript u (U"signatures") = Ok (VDict sm) -> Forall (fun kv => entry_small (snd kv)) sm) ->
  (verify_root ed_verify sha256 (canon t) (canon u) = Ok tt <-> verify_root ed_verify sha256 t u = Ok tt).
Proof. exact root_verdict_persists. Qed.

(* adding a signature to a stored file never alters the signatures already present *)
Theorem C08_add_signature_preserves_others : forall ed_pub ed_sign,
  (forall seed, length (ed_pub seed) = 32%nat /\ wf_bytes (ed_pub seed)) ->
  (forall seed m, length (ed_sign seed m) = 64%nat /\ wf_bytes (ed_sign seed m)) ->
  forall s sm sd seed s',
  jdom s = true -> is_signable s = true -> subscript s (U"signatures") = Ok (VDict sm) -> subscript s (U"signed") = Ok sd ->
  sign_signable ed_pub ed_sign (canon s) (VPriv seed) = Ok s' ->
  exists sm'' data,
    subscript s' (U"signatures") = Ok (VDict sm'') /\ subscript s' (U"signed") = Ok (canon sd)
    /\ canonserialize sd = Ok data
    /\ dget sm'' (hexlify (ed_pub seed)) = Some (sig_dict (VStr (hexlify (ed_sign seed data))))
    /\ (forall k, ustr_eqb k (hexlify (ed_pub seed)) = false -> dget sm'' k = option_map canon (dget sm k)).
Proof.
  intros ed_pub ed_sign Hp Hsg s sm sd seed s' Hd Hs Esg Esd Hsign.
  destruct (persist_envelope s sm sd Hd Hs Esg Esd) as (C1 & C2 & sm' & C3 & _ & C5).
  destruct (sign_frame ed_pub ed_sign Hp Hsg _ _ _ Hsign) as (sm0 & sd0 & data & sm'' & A1 & A2 & A3 & A4 & A5 & _ & A6 & A7 & _).
  rewrite C3 in A1. injection A1 as <-. rewrite C1 in A2. injection A2 as <-. rewrite C2 in A3.
  exists sm'', data. repeat split; auto. intros k Hk. rewrite (A7 k Hk). apply C5.
Qed.

(* non-vacuity: an envelope with two entries in "wrong" key order, stored and loaded *)
Definition ex_env :=
  VDict [(VStr (U"signed"), VDict [(VStr (U"b"), VInt 1); (VStr (U"a"), VList [VFloat (U"1.5"); VNone])]);
         (VStr (U"signatures"), VDict [(VStr (repeat 98 64), VDict [(VStr (U"signature"), VStr (repeat 48 128))]);
                                       (VStr (repeat 97 64), VDict [(VStr (U"signature"), VStr (repeat 49 128)); (VStr (U"other_headers"), VStr (U"04ff"))])])].
Example C08_witness :
  jdom ex_env = true /\ is_signable ex_env = true
  /\ store_load ex_env = Ok (canon ex_env) /\ canon ex_env <> ex_env
  /\ match store_load ex_env with Ok v => store_load v = Ok v | _ => False end.
Proof. vm_compute. repeat split. discriminate. Qed.

(* BEGIN SOURCE PINS -- written by harness/mkpins.py; the list is what Gen/Pins.v held for the tree the model was validated against *)
(* the functions of the package this property depends on (call-graph closure of its entry points), each with the fingerprint of its
   logic (AST without docstrings, annotations, messages, local names): the model and the correspondence runs were validated against
   exactly these; a change of logic in any of them breaks this obligation and the check then searches for a failing input *)
Theorem C08_source_pinned : CCT.Gen.Pins.pinned_C08 =
  [(U"authentication._ascii", U"5f6fc6aad21f14d47c4f");
   (U"authentication.verify_delegation", U"5dc5b9065823f0f50085");
   (U"authentication.verify_gpg_signature", U"ccbe2bc800d02410d16b");
   (U"authentication.verify_root", U"6692242951185dc7604b");
   (U"authentication.verify_signable", U"1bd56f9b4f5e7bcd88d9");
   (U"authentication.verify_signature", U"7e0a2d567df7e9f0cdd4");
   (U"common.MixinKey.from_hex", U"a6e4e81c0b16461490a5");
   (U"common.MixinKey.to_hex", U"fcdaef7ed3d503ba84df");
   (U"common.PrivateKey.from_bytes", U"2cb488fc935b61f65bba");
   (U"common.PrivateKey.to_bytes", U"c9564ea6ce46886b972b");
   (U"common.PublicKey.from_bytes", U"a439db0d070397bc2b47");
   (U"common.PublicKey.to_bytes", U"1167c2299d20a5c711f2");
   (U"common.canonserialize", U"64fc1dee1d7349d7a920");
   (U"common.checkformat_any_signature", U"82ba0ed515a770fad8a9");
   (U"common.checkformat_byteslike", U"1c9da61d15ff3a1a9f97");
   (U"common.checkformat_delegating_metadata", U"b013c9fa5677f3b3f637");
   (U"common.checkformat_delegation", U"25fc9c6692b07cdca131");
   (U"common.checkformat_delegations", U"d6a7d445f5f827a1471c");
   (U"common.checkformat_gpg_fingerprint", U"86e3bb7e4431fb481dc5");
   (U"common.checkformat_gpg_signature", U"a3c5515ffb8c9f6183ba");
   (U"common.checkformat_hex_key", U"625afdf8f56eb4c97143");
   (U"common.checkformat_hex_string", U"eac17f8be3d488d4b8a0");
   (U"common.checkformat_key", U"d3466826154e389f099e");
   (U"common.checkformat_list_of_hex_keys", U"4c9121b74cf062a7e2fd");
   (U"common.checkformat_natural_int", U"14f9984b8b7ef6014787");
   (U"common.checkformat_signable", U"dbb8b00a3a3727e018da");
   (U"common.checkformat_signature", U"d544854022da28dcc399");
   (U"common.checkformat_string", U"a139d0a4113d71e93d9f");
   (U"common.checkformat_utc_isoformat", U"6fed4a2332e7258f7147");
   (U"common.is_gpg_signature", U"f236e9c50126a7909e84");
   (U"common.is_hex_key", U"63c7822022cd24f926e2");
   (U"common.is_hex_signature", U"433f44075f931ec629d6");
   (U"common.is_hex_string", U"35e6d253e0c21ac09fca");
   (U"common.is_signable", U"6932517519189d75eb93");
   (U"common.is_signature", U"cc04b1fcfd687d0beea7");
   (U"common.load_metadata_from_file", U"f65eb5087b9ad786f4ff");
   (U"common.write_metadata_to_file", U"7e7340650f276f577b2b");
   (U"signing.serialize_and_sign", U"b494a1c320877296ecf6");
   (U"signing.sign_signable", U"752f8700cfb513a4c6ba")].
Proof. reflexivity. Qed.
(* END SOURCE PINS *)

Print Assumptions C08_load_write.
Print Assumptions C08_loaded_is_same_value.
Print Assumptions C08_file_is_canonical.
Print Assumptions C08_load_file_canonical.
Print Assumptions C08_cycles_stable.
Print Assumptions C08_persist_envelope.
Print Assumptions C08_persist_keeps_verdict.
Print Assumptions C08_entry_validity_preserved.
Print Assumptions C08_schema_verdict_preserved.
Print Assumptions C08_role_rule_preserved.
Print Assumptions C08_delegation_verdict_preserved.
Print Assumptions C08_root_verdict_preserved.
Print Assumptions C08_add_signature_preserves_others.
Print Assumptions C08_witness.
Print Assumptions C08_source_pinned.

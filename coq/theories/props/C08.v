(* C08 -- persisting metadata never changes its trust status. Property theorems only.
   write_metadata_to_file = the canonical serializer, load_metadata_from_file = json.load (the parser model of C07).
   Domain: jdom (see C07). *)
From CCT Require Import Prelude Hex Num Time Formats Json JsonParse Auth Signing.
From CCT.Gen Require Params.
From CCT.proofs Require Import HexFacts SigFacts AuthFacts SignableFacts SchemaFacts FamilyFacts SigningFacts JsonLexFacts SortFacts JsonFacts PersistFacts.
Open Scope N_scope.

(* write then load yields the same JSON value (its canonical form) *)
Theorem C08_load_write : forall v, jdom v = true -> store_load v = Ok (canon v).
Proof. exact load_write. Qed.

Theorem C08_loaded_is_same_value : forall v, jdom v = true ->
  canon (canon v) = canon v /\ canonserialize (canon v) = canonserialize v /\ jdom (canon v) = true.
Proof. intros v Hd. split; [apply canon_idem; auto|]. split; [apply bytes_unchanged; auto|apply jdom_canon; auto]. Qed.

(* the file written is itself in canonical form: parsing it and serializing again gives the same bytes *)
Theorem C08_file_is_canonical : forall v b, jdom v = true -> canonserialize v = Ok b ->
  exists v', load_bytes b = Some v' /\ canonserialize v' = Ok b.
Proof. intros v b Hd Hs. destruct (ser_fixpoint v b Hd Hs) as (v' & H1 & H2 & _). exists v'. auto. Qed.

(* any number of write/load cycles *)
Theorem C08_cycles_stable : forall n v, jdom v = true -> cycles (S n) v = Ok (canon v).
Proof. exact cycles_stable. Qed.

(* an envelope comes back as an envelope: payload bytes unchanged, every signature entry still filed under its key
   and equal as a JSON value *)
Theorem C08_persist_envelope : forall s sm sd,
  jdom s = true -> is_signable s = true -> subscript s (U"signatures") = Ok (VDict sm) -> subscript s (U"signed") = Ok sd ->
  is_signable (canon s) = true
  /\ subscript (canon s) (U"signed") = Ok (canon sd)
  /\ canonserialize (canon sd) = canonserialize sd
  /\ (exists sm', subscript (canon s) (U"signatures") = Ok (VDict sm') /\ canon (VDict sm) = VDict sm'
                  /\ forall k, dget sm' k = option_map canon (dget sm k)).
Proof.
  intros s sm sd Hd Hs Esg Esd. split; [apply is_signable_canon; auto|]. exact (persist_envelope s sm sd Hd Hs Esg Esd).
Qed.

(* the verdict of the envelope verifier is the same before and after persisting, for every key list, threshold and mode *)
Theorem C08_persist_keeps_verdict : forall ed_verify sha256 s K t gpg sm,
  jdom s = true -> subscript s (U"signatures") = Ok (VDict sm) ->
  (py_truth gpg = true -> Forall (fun kv => entry_small (snd kv)) sm) ->
  (verify_signable ed_verify sha256 (canon s) K t gpg = Ok tt <-> verify_signable ed_verify sha256 s K t gpg = Ok tt).
Proof. exact persist_keeps_verdict. Qed.

(* each entry counts after persisting iff it counted before *)
Theorem C08_entry_validity_preserved : forall ed_verify sha256 gpg kl data k v, jdom v = true ->
  (valid_entry ed_verify sha256 gpg kl data k (canon v) <-> valid_entry ed_verify sha256 gpg kl data k v).
Proof. exact valid_entry_canon. Qed.

(* adding a signature to a stored file never alters the signatures already present *)
Theorem C08_add_signature_preserves_others : forall ed_pub ed_sign,
  (forall seed, length (ed_pub seed) = 32%nat /\ wf_bytes (ed_pub seed)) ->
  (forall seed m, length (ed_sign seed m) = 64%nat /\ wf_bytes (ed_sign seed m)) ->
  forall s sm sd seed s',
  jdom s = true -> is_signable s = true -> subscript s (U"signatures") = Ok (VDict sm) -> subscript s (U"signed") = Ok sd ->
  sign_signable ed_pub ed_sign (canon s) (VPriv seed) = Ok s' ->
  exists sm'' data,
    subscript s' (U"signatures") = Ok (VDict sm'') /\ subscript s' (U"signed") = Ok (canon sd)
    /\ canonserialize sd = Ok data
    /\ dget sm'' (hexlify (ed_pub seed)) = Some (sig_dict (VStr (hexlify (ed_sign seed data))))
    /\ (forall k, ustr_eqb k (hexlify (ed_pub seed)) = false -> dget sm'' k = option_map canon (dget sm k)).
Proof.
  intros ed_pub ed_sign Hp Hsg s sm sd seed s' Hd Hs Esg Esd Hsign.
  destruct (persist_envelope s sm sd Hd Hs Esg Esd) as (C1 & C2 & sm' & C3 & _ & C5).
  destruct (sign_frame ed_pub ed_sign Hp Hsg _ _ _ Hsign) as (sm0 & sd0 & data & sm'' & A1 & A2 & A3 & A4 & A5 & _ & A6 & A7 & _).
  rewrite C3 in A1. injection A1 as <-. rewrite C1 in A2. injection A2 as <-. rewrite C2 in A3.
  exists sm'', data. repeat split; auto. intros k Hk. rewrite (A7 k Hk). apply C5.
Qed.

(* non-vacuity: an envelope with two entries in "wrong" key order, stored and loaded *)
Definition ex_env :=
  VDict [(VStr (U"signed"), VDict [(VStr (U"b"), VInt 1); (VStr (U"a"), VList [VFloat (U"1.5"); VNone])]);
         (VStr (U"signatures"), VDict [(VStr (repeat 98 64), VDict [(VStr (U"signature"), VStr (repeat 48 128))]);
                                       (VStr (repeat 97 64), VDict [(VStr (U"signature"), VStr (repeat 49 128)); (VStr (U"other_headers"), VStr (U"04ff"))])])].
Example C08_witness :
  jdom ex_env = true /\ is_signable ex_env = true
  /\ store_load ex_env = Ok (canon ex_env) /\ canon ex_env <> ex_env
  /\ match store_load ex_env with Ok v => store_load v = Ok v | _ => False end.
Proof. vm_compute. repeat split. discriminate. Qed.

Print Assumptions C08_load_write.
Print Assumptions C08_loaded_is_same_value.
Print Assumptions C08_file_is_canonical.
Print Assumptions C08_cycles_stable.
Print Assumptions C08_persist_envelope.
Print Assumptions C08_persist_keeps_verdict.
Print Assumptions C08_entry_validity_preserved.
Print Assumptions C08_add_signature_preserves_others.
Print Assumptions C08_witness.

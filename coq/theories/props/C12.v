(* C12 -- verification is pure: no argument mutation, no state carried across calls. Property theorems only.
   Three parts: (1) the purity certificate regenerated from the source on every run -- every store into an object
   made by any validator / verifier (or any package function they call) goes into a fresh local object, there is
   no global/nonlocal statement, no import inside a function, no caching decorator; (2) wrap_as_signable makes a
   DEEP copy, and a deep copy is isolated from its original in the object-identity model of Heap.v (a shallow copy
   is not); (3) the model API is a function of the arguments of the call alone (any Gallina function is), which is
   what the correspondence compares the implementation's histories and thread interleavings with. *)
From CCT Require Import Prelude Heap.
From CCT.Gen Require Purity.
From CCT.proofs Require Import HeapFacts.
Open Scope N_scope.

Theorem C12_purity_certificate :
  forallb (fun s => snd s =? 0) Purity.store_sites = true
  /\ Purity.flagged_constructs = []
  /\ Purity.wrap_uses_deepcopy = true.
Proof. repeat split; reflexivity. Qed.

(* the certificate covers the five verifiers and every checkformat_* / is_* validator *)
Theorem C12_certificate_covers :
  forallb (fun f => existsb (ustr_eqb f) Purity.analysed)
          [U"verify_signature"; U"verify_gpg_signature"; U"verify_signable"; U"verify_delegation"; U"verify_root";
           U"checkformat_delegating_metadata"; U"checkformat_delegations"; U"checkformat_delegation"; U"checkformat_signable";
           U"checkformat_any_signature"; U"checkformat_gpg_signature"; U"checkformat_signature"; U"checkformat_list_of_hex_keys";
           U"checkformat_hex_key"; U"checkformat_hex_string"; U"checkformat_natural_int"; U"checkformat_utc_isoformat";
           U"is_signable"; U"is_hex_key"; U"is_hex_signature"; U"is_signature"; U"is_gpg_signature"; U"canonserialize"] = true.
Proof. reflexivity. Qed.

Theorem C12_deepcopy_fresh_and_equal : forall t next, Forall (fun l => l < next) (locs t) ->
  let t' := fst (deepcopy next t) in
  erase t' = erase t
  /\ (forall l, In l (locs t') -> ~ In l (locs t))
  /\ (forall a c, In a (locs t) -> store a c t' = t')
  /\ (forall a c, In a (locs t') -> store a c t = t).
Proof. exact deepcopy_fresh_and_equal. Qed.

(* later changes to either side of wrap_as_signable do not affect the other *)
Theorem C12_wrap_isolated : forall obj next, Forall (fun l => l < next) (locs obj) ->
  erase (wrap next obj) = VDict [(VStr (U"signatures"), VDict []); (VStr (U"signed"), erase obj)]
  /\ (forall a c, In a (locs obj) -> store a c (wrap next obj) = wrap next obj)
  /\ (forall a c, In a (locs (wrap next obj)) -> store a c obj = obj).
Proof. exact wrap_isolated. Qed.

Theorem C12_shallow_copy_not_isolated :
  exists obj next a c, Forall (fun l => l < next) (locs obj) /\ In a (locs obj)
                       /\ erase (store a c (shallowcopy next obj)) <> erase (shallowcopy next obj).
Proof. exact shallow_copy_not_isolated. Qed.

Example C12_witness :
  let obj := HDict 0 [(VStr (U"k"), HList 1 [HAtom (VInt 1)])] in
  erase (store 1 (CList []) (wrap 2 obj)) = erase (wrap 2 obj)
  /\ erase (store 1 (CList []) obj) <> erase obj
  /\ locs (wrap 2 obj) = [2; 3; 4; 5].
Proof. vm_compute. repeat split. discriminate. Qed.

Print Assumptions C12_purity_certificate.
Print Assumptions C12_certificate_covers.
Print Assumptions C12_deepcopy_fresh_and_equal.
Print Assumptions C12_wrap_isolated.
Print Assumptions C12_shallow_copy_not_isolated.
Print Assumptions C12_witness.

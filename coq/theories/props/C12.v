(* C12 -- verification is pure: no argument mutation, no state carried across calls. Property theorems only.
   Three parts: (1) the purity certificate regenerated from the source on every run -- every store into an object
   made by any validator / verifier (or any package function they call) goes into a fresh local object, there is
   no global/nonlocal statement, no import inside a function, no caching decorator; (2) wrap_as_signable makes a
   DEEP copy, and a deep copy is isolated from its original in the object-identity model of Heap.v (a shallow copy
   is not); (3) the model API is a function of the arguments of the call alone (any Gallina function is), which is
   what the correspondence compares the implementation's histories and thread interleavings with. *)
From CCT Require Import Prelude Heap.
From CCT.Gen Require Pins.
From CCT.Gen Require Purity.
From CCT.proofs Require Import HeapFacts.
Open Scope N_scope.

Theorem C12_purity_certificate :
  forallb (fun s => snd s =? 0) Purity.store_sites = true
  /\ Purity.flagged_constructs = []
  /\ Purity.wrap_uses_deepcopy = true.
Proof. repeat split; reflexivity. Qed.

(* no function of any module of the package stores into module-level state, directly or through a local alias of a
   module-level object: nothing a call does can be seen by a later call (of the verifiers, of the serializer, of anything) *)
Theorem C12_no_global_state_written : Purity.package_global_stores = [].
Proof. reflexivity. Qed.

(* no function reachable from the validators and verifiers reads the clock, the environment, a source of randomness or the process
   (datetime.now / utcnow / today, time.time, os.environ, os.getenv, random.*, os.getpid ...; re-read from the AST on every run):
   together with the two certificates above, a verdict is a function of the arguments of the call *)
Theorem C12_no_ambient_reads : Purity.ambient_reads = [].
Proof. reflexivity. Qed.

(* the certificate covers the five verifiers and every checkformat_* / is_* validator *)
Theorem C12_certificate_covers :
  forallb (fun f => existsb (ustr_eqb f) Purity.analysed)
          [U"verify_signature"; U"verify_gpg_signature"; U"verify_signable"; U"verify_delegation"; U"verify_root";
           U"checkformat_delegating_metadata"; U"checkformat_delegations"; U"checkformat_delegation"; U"checkformat_signable";
           U"checkformat_any_signature"; U"checkformat_gpg_signature"; U"checkformat_signature"; U"checkformat_list_of_hex_keys";
           U"checkformat_hex_key"; U"checkformat_hex_string"; U"checkformat_natural_int"; U"checkformat_utc_isoformat";
           U"is_signable"; U"is_hex_key"; U"is_hex_signature"; U"is_signature"; U"is_gpg_signature"; U"canonserialize"] = true.
Proof. reflexivity. Qed.

Theorem C12_deepcopy_fresh_and_equal : forall t next, Forall (fun l => l < next) (locs t) ->
  let t' := fst (deepcopy next t) in
  erase t' = erase t
  /\ (forall l, In l (locs t') -> ~ In l (locs t))
  /\ (forall a c, In a (locs t) -> store a c t' = t')
  /\ (forall a c, In a (locs t') -> store a c t = t).
Proof. exact deepcopy_fresh_and_equal. Qed.

(* later changes to either side of wrap_as_signable do not affect the other *)
Theorem C12_wrap_isolated : forall obj next, Forall (fun l => l < next) (locs obj) ->
  erase (wrap next obj) = VDict [(VStr (U"signatures"), VDict []); (VStr (U"signed"), erase obj)]
  /\ (forall a c, In a (locs obj) -> store a c (wrap next obj) = wrap next obj)
  /\ (forall a c, In a (locs (wrap next obj)) -> store a c obj = obj).
Proof. exact wrap_isolated. Qed.

Theorem C12_shallow_copy_not_isolated :
  exists obj next a c, Forall (fun l => l < next) (locs obj) /\ In a (locs obj)
                       /\ erase (store a c (shallowcopy next obj)) <> erase (shallowcopy next obj).
Proof. exact shallow_copy_not_isolated. Qed.

Example C12_witness :
  let obj := HDict 0 [(VStr (U"k"), HList 1 [HAtom (VInt 1)])] in
  erase (store 1 (CList []) (wrap 2 obj)) = erase (wrap 2 obj)
  /\ erase (store 1 (CList []) obj) <> erase obj
  /\ locs (wrap 2 obj) = [2; 3; 4; 5].
Proof. vm_compute. repeat split. discriminate. Qed.

(* BEGIN SOURCE PINS -- written by harness/mkpins.py; the list is what Gen/Pins.v held for the tree the model was validated against *)
(* the functions of the package this property depends on (call-graph closure of its entry points), each with the fingerprint of its
   logic (AST without docstrings, annotations, messages, local names): the model and the correspondence runs were validated against
   exactly these; a change of logic in any of them breaks this obligation and the check then searches for a failing input *)
Theorem C12_source_pinned : CCT.Gen.Pins.pinned_C12 =
  [(U"authentication._ascii", U"5f6fc6aad21f14d47c4f");
   (U"authentication.verify_delegation", U"5dc5b9065823f0f50085");
   (U"authentication.verify_gpg_signature", U"ccbe2bc800d02410d16b");
   (U"authentication.verify_root", U"6692242951185dc7604b");
   (U"authentication.verify_signable", U"1bd56f9b4f5e7bcd88d9");
   (U"authentication.verify_signature", U"7e0a2d567df7e9f0cdd4");
   (U"common.MixinKey.from_hex", U"a6e4e81c0b16461490a5");
   (U"common.PrivateKey.from_bytes", U"2cb488fc935b61f65bba");
   (U"common.PublicKey.from_bytes", U"a439db0d070397bc2b47");
   (U"common.canonserialize", U"64fc1dee1d7349d7a920");
   (U"common.checkformat_any_signature", U"82ba0ed515a770fad8a9");
   (U"common.checkformat_byteslike", U"1c9da61d15ff3a1a9f97");
   (U"common.checkformat_delegating_metadata", U"b013c9fa5677f3b3f637");
   (U"common.checkformat_delegation", U"25fc9c6692b07cdca131");
   (U"common.checkformat_delegations", U"d6a7d445f5f827a1471c");
   (U"common.checkformat_gpg_fingerprint", U"86e3bb7e4431fb481dc5");
   (U"common.checkformat_gpg_signature", U"a3c5515ffb8c9f6183ba");
   (U"common.checkformat_hex_key", U"625afdf8f56eb4c97143");
   (U"common.checkformat_hex_string", U"eac17f8be3d488d4b8a0");
   (U"common.checkformat_key", U"d3466826154e389f099e");
   (U"common.checkformat_list_of_hex_keys", U"4c9121b74cf062a7e2fd");
   (U"common.checkformat_natural_int", U"14f9984b8b7ef6014787");
   (U"common.checkformat_signable", U"dbb8b00a3a3727e018da");
   (U"common.checkformat_signature", U"d544854022da28dcc399");
   (U"common.checkformat_string", U"a139d0a4113d71e93d9f");
   (U"common.checkformat_utc_isoformat", U"6fed4a2332e7258f7147");
   (U"common.is_gpg_signature", U"f236e9c50126a7909e84");
   (U"common.is_hex_key", U"63c7822022cd24f926e2");
   (U"common.is_hex_signature", U"433f44075f931ec629d6");
   (U"common.is_hex_string", U"35e6d253e0c21ac09fca");
   (U"common.is_signable", U"6932517519189d75eb93");
   (U"common.is_signature", U"cc04b1fcfd687d0beea7");
   (U"signing.wrap_as_signable", U"aa9e0c33a445b2f5590b")].
Proof. reflexivity. Qed.
(* END SOURCE PINS *)

Print Assumptions C12_purity_certificate.
Print Assumptions C12_no_global_state_written.
Print Assumptions C12_no_ambient_reads.
Print Assumptions C12_certificate_covers.
Print Assumptions C12_deepcopy_fresh_and_equal.
Print Assumptions C12_wrap_isolated.
Print Assumptions C12_shallow_copy_not_isolated.
Print Assumptions C12_witness.
Print Assumptions C12_source_pinned.

(* C14, source tie -- the envelope gate of every verifier and of the delegating-metadata checker, is_signable / checkformat_signable,
   as written in common.py: translated from the working tree on every run (Gen/Source.v, by harness/translate_src.py), interpreted by
   PySrc.run_prog, and proved equal to the hand-written model.  Property theorems only.
   These obligations are part of the tie between model and code (see props/C15_src.v). *)
From Coq Require Import String.
From CCT Require Import Prelude Hex Num Time Formats PySrc.
From CCT.Gen Require Source.
From CCT.proofs Require Import SourceFacts SourceSigFacts SourceEnvFacts SourceNumFacts.

Theorem C14src_translated :
  forallb (fun f => existsb (String.eqb f) (map fst Source.program)) ["is_signable"; "checkformat_signable"; "checkformat_natural_int"; "checkformat_list_of_hex_keys"]%string = true
  /\ Source.call_graph_acyclic = true.
Proof. split; reflexivity. Qed.

(* dict_ok: what every CPython dict satisfies (pairwise distinct keys) plus: no key is an instance of a user-defined class *)
Theorem C14src_dict_ok_meaning : forall v,
  dict_ok v <-> match v with VDict m => NoDup (map fst m) /\ forallb plain_key (map fst m) = true | _ => True end.
Proof. intros v. reflexivity. Qed.

Theorem C14src_is_signable : forall v, dict_ok v ->
  run_prog Source.program "is_signable" [v] = Ok (VBool (is_signable v)).
Proof. exact src_is_signable. Qed.

Theorem C14src_checkformat_signable : forall v, dict_ok v ->
  run_prog Source.program "checkformat_signable" [v] = returns_arg (checkformat_signable v) v.
Proof. exact src_checkformat_signable. Qed.

(* the envelope clause of the schema, stated of the source text: exactly the two fields, a dict of signatures, a serializable payload *)
Theorem C14src_envelope_has_exactly_two_fields : forall m, dict_ok (VDict m) ->
  run_prog Source.program "is_signable" [VDict m] = Ok (VBool true) ->
  exists x y, (m = [(VStr (U"signatures"), x); (VStr (U"signed"), y)] \/ m = [(VStr (U"signed"), y); (VStr (U"signatures"), x)])
              /\ is_dict x = true /\ type_in y Params.serializable_types = true.
Proof. exact src_envelope_two_fields. Qed.

(* version / threshold fields: the integer test as written (int(), the OverflowError handler, the two comparisons).  int() of text
   parses it (int("12") = 12), which the interpreter leaves outside the model: stated for every value that is not str / bytes / bytearray *)
Theorem C14src_checkformat_natural_int : forall v, not_text v = true ->
  run_prog Source.program "checkformat_natural_int" [v] = returns_arg (checkformat_natural_int v) v.
Proof. exact src_checkformat_natural_int. Qed.

(* key lists: the loop over the elements and the duplicate test through set(), for every value *)
Theorem C14src_checkformat_list_of_hex_keys : forall v,
  run_prog Source.program "checkformat_list_of_hex_keys" [v] = returns_arg (checkformat_list_of_hex_keys v) v.
Proof. exact src_checkformat_list_of_hex_keys. Qed.

Theorem C14src_json_dicts_are_ok : forall m, all_str_keys m = true -> NoDup (map fst m) -> dict_ok (VDict m).
Proof. exact dict_ok_str_keys. Qed.

Example C14src_witness :
  run_prog Source.program "is_signable" [VDict [(VStr (U"signatures"), VDict []); (VStr (U"signed"), VInt 1)]] = Ok (VBool true)
  /\ run_prog Source.program "is_signable" [VDict [(VStr (U"signed"), VNone); (VStr (U"signatures"), VDict [])]] = Ok (VBool true)
  /\ run_prog Source.program "is_signable" [VDict [(VStr (U"signatures"), VDict []); (VStr (U"signed"), VInt 1); (VStr (U"x"), VInt 1)]] = Ok (VBool false)
  /\ run_prog Source.program "is_signable" [VDict [(VStr (U"signatures"), VList []); (VStr (U"signed"), VInt 1)]] = Ok (VBool false)
  /\ run_prog Source.program "is_signable" [VDict [(VStr (U"signatures"), VDict []); (VStr (U"signed"), VBytes [])]] = Ok (VBool false)
  /\ run_prog Source.program "checkformat_signable" [VList []] = Err TypeError
  /\ run_prog Source.program "checkformat_natural_int" [VInt 0] = Err ValueError
  /\ run_prog Source.program "checkformat_natural_int" [VBool true] = Ok (VBool true)
  /\ run_prog Source.program "checkformat_natural_int" [VFloat (U"2.0")] = Ok (VFloat (U"2.0"))
  /\ run_prog Source.program "checkformat_natural_int" [VFloat (U"2.5")] = Err ValueError
  /\ run_prog Source.program "checkformat_natural_int" [VFloat (U"Infinity")] = Err ValueError
  /\ run_prog Source.program "checkformat_natural_int" [VNone] = Err TypeError
  /\ run_prog Source.program "checkformat_list_of_hex_keys" [VList [VStr (repeat 97 64); VStr (repeat 98 64)]]
       = Ok (VList [VStr (repeat 97 64); VStr (repeat 98 64)])
  /\ run_prog Source.program "checkformat_list_of_hex_keys" [VList [VStr (repeat 97 64); VStr (repeat 97 64)]] = Err ValueError
  /\ run_prog Source.program "checkformat_list_of_hex_keys" [VTuple [VStr (repeat 97 64)]] = Err TypeError.
Proof. repeat split; vm_compute; reflexivity. Qed.

Print Assumptions C14src_translated.
Print Assumptions C14src_dict_ok_meaning.
Print Assumptions C14src_is_signable.
Print Assumptions C14src_checkformat_signable.
Print Assumptions C14src_envelope_has_exactly_two_fields.
Print Assumptions C14src_checkformat_natural_int.
Print Assumptions C14src_checkformat_list_of_hex_keys.
Print Assumptions C14src_json_dicts_are_ok.
Print Assumptions C14src_witness.

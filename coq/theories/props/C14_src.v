(* C14, source tie -- the envelope gate of every verifier and of the delegating-metadata checker, is_signable / checkformat_signable,
   as written in common.py: translated from the working tree on every run (Gen/Source.v, by harness/translate_src.py), interpreted by
   PySrc.run_prog, and proved equal to the hand-written model.  Property theorems only.
   These obligations are part of the tie between model and code (see props/C15_src.v). *)
From Coq Require Import String.
From CCT Require Import Prelude Hex Num Time Formats PySrc.
From CCT.Gen Require Source.
From CCT.proofs Require Import SchemaFacts SourceFacts SourceSigFacts SourceEnvFacts SourceNumFacts SourceDmFacts JsonFacts SourceJsonFacts.
From CCT Require Import JsonParse.
From CCT.proofs Require SourceLoadFacts.

Theorem C14src_translated :
  forallb (fun f => existsb (String.eqb f) (map fst Source.program)) ["is_signable"; "checkformat_signable"; "checkformat_natural_int"; "checkformat_list_of_hex_keys"; "checkformat_utc_isoformat";
     "checkformat_delegation"; "checkformat_delegations"; "checkformat_delegating_metadata"]%string = true
  /\ Source.call_graph_acyclic = true.
Proof. split; reflexivity. Qed.

(* dict_ok: what every CPython dict satisfies (pairwise distinct keys) plus: no key is an instance of a user-defined class *)
Theorem C14src_dict_ok_meaning : forall v,
  dict_ok v <-> match v with VDict m => NoDup (map fst m) /\ forallb plain_key (map fst m) = true | _ => True end.
Proof. intros v. reflexivity. Qed.

Theorem C14src_is_signable : forall v, dict_ok v ->
  run_prog Source.program "is_signable" [v] = Ok (VBool (is_signable v)).
Proof. exact src_is_signable. Qed.

Theorem C14src_checkformat_signable : forall v, dict_ok v ->
  run_prog Source.program "checkformat_signable" [v] = returns_arg (checkformat_signable v) v.
Proof. exact src_checkformat_signable. Qed.

(* the envelope clause of the schema, stated of the source text: exactly the two fields, a dict of signatures, a serializable payload *)
Theorem C14src_envelope_has_exactly_two_fields : forall m, dict_ok (VDict m) ->
  run_prog Source.program "is_signable" [VDict m] = Ok (VBool true) ->
  exists x y, (m = [(VStr (U"signatures"), x); (VStr (U"signed"), y)] \/ m = [(VStr (U"signed"), y); (VStr (U"signatures"), x)])
              /\ is_dict x = true /\ type_in y Params.serializable_types = true.
Proof. exact src_envelope_two_fields. Qed.

(* version / threshold fields: the integer test as written (int(), the OverflowError handler, the two comparisons).  int() of text
   parses it (int("12") = 12), which the interpreter leaves outside the model: stated for every value that is not str / bytes / bytearray *)
Theorem C14src_checkformat_natural_int : forall v, not_text v = true ->
  run_prog Source.program "checkformat_natural_int" [v] = returns_arg (checkformat_natural_int v) v.
Proof. exact src_checkformat_natural_int. Qed.

(* key lists: the loop over the elements and the duplicate test through set(), for every value *)
Theorem C14src_checkformat_list_of_hex_keys : forall v,
  run_prog Source.program "checkformat_list_of_hex_keys" [v] = returns_arg (checkformat_list_of_hex_keys v) v.
Proof. exact src_checkformat_list_of_hex_keys. Qed.

(* the date fields: strptime with the package's format string, and the handler that turns its ValueError into TypeError *)
Theorem C14src_checkformat_utc_isoformat : forall v,
  run_prog Source.program "checkformat_utc_isoformat" [v] = returns_arg (checkformat_utc_isoformat v) v.
Proof. exact src_checkformat_utc_isoformat. Qed.

(* one delegation: the set() of its keys, the >= test, the comprehension over the keys, then the two leaf checkers *)
Theorem C14src_checkformat_delegation : forall v, dict_ok v ->
  run_prog Source.program "checkformat_delegation" [v] = returns_arg (checkformat_delegation v) v.
Proof. exact src_checkformat_delegation. Qed.

(* the delegations dict: the loop over its keys, d[k] for each *)
Theorem C14src_checkformat_delegations : forall v, delegation_dicts_ok v ->
  run_prog Source.program "checkformat_delegations" [v] = returns_arg (checkformat_delegations v) v.
Proof. exact src_checkformat_delegations. Qed.

(* THE CHECKER, as written in common.py (envelope gate, loop over the signature map, required-field loop, type against the
   supported list, spec version, delegations, expiration, the version/timestamp rules, the assert, the optional fields), computes the
   hand-written model on every argument satisfying checker_input_ok -- whose four clauses hold of every value json.load returns
   except that a version given as text is left out (int() of text is outside the interpreter) *)
Theorem C14src_checker_input_ok_meaning : forall v,
  checker_input_ok v <->
  dict_ok v
  /\ (forall sm, subscript v (U"signatures") = Ok (VDict sm) ->
        all_str_keys sm = true /\ NoDup (map fst sm) /\ Forall (fun p => outside_sorted (snd p) = false) sm)
  /\ (forall c, subscript v (U"signed") = Ok c ->
        (forall dl, subscript c (U"delegations") = Ok dl -> delegation_dicts_ok dl)
        /\ (forall ve, subscript c (U"version") = Ok ve -> not_text ve = true)).
Proof. intros v. reflexivity. Qed.

Theorem C14src_checker_refines : forall v, checker_input_ok v ->
  run_prog Source.program "checkformat_delegating_metadata" [v] = (checkformat_delegating_metadata v ;;; Ok VNone).
Proof. exact src_checkformat_delegating_metadata. Qed.

(* hence the property itself, of the source text: the function in common.py returns (None) exactly on the documented schema *)
Theorem C14src_checker_iff_schema : forall v, checker_input_ok v ->
  (run_prog Source.program "checkformat_delegating_metadata" [v] = Ok VNone <-> dm_ok v).
Proof. exact src_checker_iff_schema. Qed.

Theorem C14src_json_dicts_are_ok : forall m, all_str_keys m = true -> NoDup (map fst m) -> dict_ok (VDict m).
Proof. exact dict_ok_str_keys. Qed.

(* on the JSON domain (jdom: what json.load returns -- str keys, pairwise distinct at every level, JSON number tokens) the side conditions
   reduce to one: a version, if present, is not text.  So for every such document the checker in the source decides the schema. *)
Theorem C14src_json_values_ok : forall v, jdom v = true ->
  (forall c ve, subscript v (U"signed") = Ok c -> subscript c (U"version") = Ok ve -> not_text ve = true) ->
  checker_input_ok v.
Proof. exact jdom_checker_input_ok. Qed.

Theorem C14src_checker_iff_schema_on_json : forall v, jdom v = true ->
  (forall c ve, subscript v (U"signed") = Ok c -> subscript c (U"version") = Ok ve -> not_text ve = true) ->
  (run_prog Source.program "checkformat_delegating_metadata" [v] = Ok VNone <-> dm_ok v).
Proof. intros v J NT. exact (src_checker_iff_schema v (jdom_checker_input_ok v J NT)). Qed.

(* every file the library can load: load_file is json.load's byte layer (encoding guess, byte-order mark, UTF-8 with surrogatepass) and
   the parser of C07; whatever it returns has str keys, pairwise distinct, in every dict at every depth (an invariant of the parser's
   stack machine: SourceLoadFacts.parse_jkeys), so the checker as written decides the schema on it -- unless the version is text *)
Theorem C14src_checker_on_loaded_files : forall b v, load_file b = Ok v ->
  (forall c ve, subscript v (U"signed") = Ok c -> subscript c (U"version") = Ok ve -> not_text ve = true) ->
  (run_prog Source.program "checkformat_delegating_metadata" [v] = Ok VNone <-> dm_ok v).
Proof. exact SourceLoadFacts.loaded_checker_iff_schema. Qed.

(* non-vacuity of the checker theorems: a concrete root document meets checker_input_ok and the interpreted source accepts it;
   the same document without its version is rejected by the interpreted source with ValueError *)
Definition ex_key := VStr (repeat 97 64).
Definition ex_deleg := VDict [(VStr (U"pubkeys"), VList [ex_key]); (VStr (U"threshold"), VInt 1)].
Definition ex_signed (extra : list (pv * pv)) :=
  VDict ([(VStr (U"type"), VStr (U"root")); (VStr (U"metadata_spec_version"), VStr (U"0.6.0"));
          (VStr (U"delegations"), VDict [(VStr (U"root"), ex_deleg)]);
          (VStr (U"expiration"), VStr (U"2030-01-01T00:00:00Z"))] ++ extra).
Definition ex_env (extra : list (pv * pv)) :=
  VDict [(VStr (U"signatures"), VDict [(VStr (repeat 98 64), VDict [(VStr (U"signature"), VStr (repeat 99 128))])]); (VStr (U"signed"), ex_signed extra)].
Example C14src_checker_witness :
  checker_input_ok (ex_env [(VStr (U"version"), VInt 1)])
  /\ run_prog Source.program "checkformat_delegating_metadata" [ex_env [(VStr (U"version"), VInt 1)]] = Ok VNone
  /\ run_prog Source.program "checkformat_delegating_metadata" [ex_env []] = Err ValueError.
Proof. exact src_checker_witness. Qed.

Example C14src_witness :
  run_prog Source.program "is_signable" [VDict [(VStr (U"signatures"), VDict []); (VStr (U"signed"), VInt 1)]] = Ok (VBool true)
  /\ run_prog Source.program "is_signable" [VDict [(VStr (U"signed"), VNone); (VStr (U"signatures"), VDict [])]] = Ok (VBool true)
  /\ run_prog Source.program "is_signable" [VDict [(VStr (U"signatures"), VDict []); (VStr (U"signed"), VInt 1); (VStr (U"x"), VInt 1)]] = Ok (VBool false)
  /\ run_prog Source.program "is_signable" [VDict [(VStr (U"signatures"), VList []); (VStr (U"signed"), VInt 1)]] = Ok (VBool false)
  /\ run_prog Source.program "is_signable" [VDict [(VStr (U"signatures"), VDict []); (VStr (U"signed"), VBytes [])]] = Ok (VBool false)
  /\ run_prog Source.program "checkformat_signable" [VList []] = Err TypeError
  /\ run_prog Source.program "checkformat_natural_int" [VInt 0] = Err ValueError
  /\ run_prog Source.program "checkformat_natural_int" [VBool true] = Ok (VBool true)
  /\ run_prog Source.program "checkformat_natural_int" [VFloat (U"2.0")] = Ok (VFloat (U"2.0"))
  /\ run_prog Source.program "checkformat_natural_int" [VFloat (U"2.5")] = Err ValueError
  /\ run_prog Source.program "checkformat_natural_int" [VFloat (U"Infinity")] = Err ValueError
  /\ run_prog Source.program "checkformat_natural_int" [VNone] = Err TypeError
  /\ run_prog Source.program "checkformat_list_of_hex_keys" [VList [VStr (repeat 97 64); VStr (repeat 98 64)]]
       = Ok (VList [VStr (repeat 97 64); VStr (repeat 98 64)])
  /\ run_prog Source.program "checkformat_list_of_hex_keys" [VList [VStr (repeat 97 64); VStr (repeat 97 64)]] = Err ValueError
  /\ run_prog Source.program "checkformat_list_of_hex_keys" [VTuple [VStr (repeat 97 64)]] = Err TypeError.
Proof. repeat split; vm_compute; reflexivity. Qed.

Print Assumptions C14src_translated.
Print Assumptions C14src_dict_ok_meaning.
Print Assumptions C14src_is_signable.
Print Assumptions C14src_checkformat_signable.
Print Assumptions C14src_envelope_has_exactly_two_fields.
Print Assumptions C14src_checkformat_natural_int.
Print Assumptions C14src_checkformat_list_of_hex_keys.
Print Assumptions C14src_checkformat_utc_isoformat.
Print Assumptions C14src_checkformat_delegation.
Print Assumptions C14src_checkformat_delegations.
Print Assumptions C14src_checker_input_ok_meaning.
Print Assumptions C14src_checker_refines.
Print Assumptions C14src_checker_iff_schema.
Print Assumptions C14src_json_values_ok.
Print Assumptions C14src_checker_iff_schema_on_json.
Print Assumptions C14src_checker_on_loaded_files.
Print Assumptions C14src_checker_witness.
Print Assumptions C14src_json_dicts_are_ok.
Print Assumptions C14src_witness.

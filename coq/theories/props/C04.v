(* C04 -- root chain integrity over arbitrary histories of offered updates. Property theorems only. *)
From CCT Require Import Prelude Hex Num Time Formats Json Auth.
From CCT.proofs Require Import HexFacts SigFacts AuthFacts SignableFacts DelegationFacts RootFacts.
Open Scope N_scope.

(* a client that replaces its root only by accepted offers holds a root reached from the initial one
   by links, each satisfying the update rule of C03 -- for every finite sequence of offers *)
Theorem C04_chain_integrity : forall ed_verify sha256 t0 us,
  Chain ed_verify sha256 t0 (run ed_verify sha256 t0 us).
Proof. exact chain_integrity. Qed.

Theorem C04_version_counts_accepts : forall ed_verify sha256 t0 us z,
  version_of t0 = Some z ->
  version_of (run ed_verify sha256 t0 us) = Some (z + Z.of_nat (accepted_count ed_verify sha256 t0 us))%Z.
Proof. exact version_counts_accepts. Qed.

Theorem C04_only_successor_accepted : forall ed_verify sha256 t u z,
  version_of t = Some z -> accepts ed_verify sha256 t u = true -> version_of u = Some (z + 1)%Z.
Proof. exact only_successor_accepted. Qed.

Theorem C04_no_replay_no_rollback : forall ed_verify sha256 t u z zu,
  version_of t = Some z -> version_of u = Some zu -> (zu <= z)%Z -> accepts ed_verify sha256 t u = false.
Proof. exact no_replay_no_rollback. Qed.

Theorem C04_verdict_history_free : forall ed_verify sha256 t0 us1 us2 u,
  run ed_verify sha256 t0 us1 = run ed_verify sha256 t0 us2 ->
  accepts ed_verify sha256 (run ed_verify sha256 t0 us1) u = accepts ed_verify sha256 (run ed_verify sha256 t0 us2) u.
Proof. exact verdict_history_free. Qed.

Print Assumptions C04_chain_integrity.
Print Assumptions C04_version_counts_accepts.
Print Assumptions C04_only_successor_accepted.
Print Assumptions C04_no_replay_no_rollback.
Print Assumptions C04_verdict_history_free.

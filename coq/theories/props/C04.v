(* C04 -- root chain integrity over arbitrary histories of offered updates. Property theorems only. *)
From CCT Require Import Prelude Hex Num Time Formats Json Auth.
From CCT.Gen Require Pins.
From CCT.proofs Require Import HexFacts SigFacts AuthFacts SignableFacts DelegationFacts RootFacts ChainFacts.
Open Scope N_scope.

(* a client that replaces its root only by accepted offers holds a root reached from the initial one
   by links, each satisfying the update rule of C03 -- for every finite sequence of offers *)
Theorem C04_chain_integrity : forall ed_verify sha256 t0 us,
  Chain ed_verify sha256 t0 (run ed_verify sha256 t0 us).
Proof. exact chain_integrity. Qed.

Theorem C04_version_counts_accepts : forall ed_verify sha256 t0 us z,
  version_of t0 = Some z ->
  version_of (run ed_verify sha256 t0 us) = Some (z + Z.of_nat (accepted_count ed_verify sha256 t0 us))%Z.
Proof. exact version_counts_accepts. Qed.

Theorem C04_only_successor_accepted : forall ed_verify sha256 t u z,
  version_of t = Some z -> accepts ed_verify sha256 t u = true -> version_of u = Some (z + 1)%Z.
Proof. exact only_successor_accepted. Qed.

Theorem C04_no_replay_no_rollback : forall ed_verify sha256 t u z zu,
  version_of t = Some z -> version_of u = Some zu -> (zu <= z)%Z -> accepts ed_verify sha256 t u = false.
Proof. exact no_replay_no_rollback. Qed.

Theorem C04_verdict_history_free : forall ed_verify sha256 t0 us1 us2 u,
  run ed_verify sha256 t0 us1 = run ed_verify sha256 t0 us2 ->
  accepts ed_verify sha256 (run ed_verify sha256 t0 us1) u = accepts ed_verify sha256 (run ed_verify sha256 t0 us2) u.
Proof. exact verdict_history_free. Qed.

(* a party that cannot produce valid signatures for a threshold of the root keys in force cannot change the client's root:
   only_signs_with S u = every entry of u that is a valid OpenPGP-mode signature over u's payload is filed under a key of S
   (no forgery for keys the party does not hold); below_threshold S t = fewer keys of S among t's root keys than t's root
   threshold.  For any number of offers, at any state. *)
Theorem C04_below_threshold_rejected : forall ed_verify sha256 S t u,
  below_threshold S t -> only_signs_with ed_verify sha256 S u -> distinct_entries u ->
  verify_root ed_verify sha256 t u <> Ok tt.
Proof. exact below_threshold_rejected. Qed.

Theorem C04_powerless_parties_never_move_the_root : forall ed_verify sha256 S t0 us,
  below_threshold S t0 ->
  Forall (fun u => only_signs_with ed_verify sha256 S u /\ distinct_entries u) us ->
  run ed_verify sha256 t0 us = t0.
Proof. exact powerless_parties_never_move_the_root. Qed.

Theorem C04_powerless_offer_is_a_noop : forall ed_verify sha256 S t u,
  below_threshold S t -> only_signs_with ed_verify sha256 S u -> distinct_entries u ->
  offer ed_verify sha256 t u = t.
Proof. exact powerless_offer_is_a_noop. Qed.

(* non-vacuity: a root with two root keys and threshold 2; a party holding one of them is below the threshold,
   a party holding both is not *)
Definition ex_k (c : N) := VStr (repeat c 64).
Definition ex_rule (th : Z) (ks : list pv) := VDict [(VStr (U"pubkeys"), VList ks); (VStr (U"threshold"), VInt th)].
Definition ex_root := VDict [(VStr (U"signatures"), VDict []);
  (VStr (U"signed"), VDict [(VStr (U"type"), VStr (U"root")); (VStr (U"version"), VInt 1); (VStr (U"metadata_spec_version"), VStr (U"0.6.0"));
                            (VStr (U"expiration"), VStr (U"2030-01-01T00:00:00Z"));
                            (VStr (U"delegations"), VDict [(VStr (U"root"), ex_rule 2 [ex_k 97; ex_k 98]); (VStr (U"key_mgr"), ex_rule 1 [ex_k 99])])])].
Example C04_witness :
  below_threshold [repeat 97 64] ex_root /\ below_threshold [repeat 97 64; repeat 99 64] ex_root
  /\ ~ below_threshold [repeat 97 64; repeat 98 64] ex_root.
Proof.
  assert (V : view ex_root = Ok {| rv_type := VStr (U"root"); rv_keys := VList [ex_k 97; ex_k 98]; rv_threshold := VInt 2; rv_version := VInt 1 |}) by (vm_compute; reflexivity).
  split; [|split].
  - eexists _, _, _. split; [exact V|]. split; [reflexivity|]. split; [reflexivity|]. vm_compute. reflexivity.
  - eexists _, _, _. split; [exact V|]. split; [reflexivity|]. split; [reflexivity|]. vm_compute. reflexivity.
  - intros (tv & kl & tz & V' & Ek & Et & H). rewrite V in V'. injection V' as <-. cbn [rv_keys rv_threshold] in Ek, Et.
    injection Ek as <-. injection Et as <-. revert H. vm_compute. intros H. discriminate H.
Qed.

(* BEGIN SOURCE PINS -- written by harness/mkpins.py; the list is what Gen/Pins.v held for the tree the model was validated against *)
(* the functions of the package this property depends on (call-graph closure of its entry points), each with the fingerprint of its
   logic (AST without docstrings, annotations, messages, local names): the model and the correspondence runs were validated against
   exactly these; a change of logic in any of them breaks this obligation and the check then searches for a failing input *)
Theorem C04_source_pinned : CCT.Gen.Pins.pinned_C04 =
  [(U"authentication._ascii", U"5f6fc6aad21f14d47c4f");
   (U"authentication.verify_gpg_signature", U"ccbe2bc800d02410d16b");
   (U"authentication.verify_root", U"6692242951185dc7604b");
   (U"authentication.verify_signable", U"1bd56f9b4f5e7bcd88d9");
   (U"authentication.verify_signature", U"7e0a2d567df7e9f0cdd4");
   (U"common.MixinKey.from_hex", U"a6e4e81c0b16461490a5");
   (U"common.PrivateKey.from_bytes", U"2cb488fc935b61f65bba");
   (U"common.PublicKey.from_bytes", U"a439db0d070397bc2b47");
   (U"common.canonserialize", U"64fc1dee1d7349d7a920");
   (U"common.checkformat_any_signature", U"82ba0ed515a770fad8a9");
   (U"common.checkformat_byteslike", U"1c9da61d15ff3a1a9f97");
   (U"common.checkformat_delegating_metadata", U"b013c9fa5677f3b3f637");
   (U"common.checkformat_delegation", U"25fc9c6692b07cdca131");
   (U"common.checkformat_delegations", U"d6a7d445f5f827a1471c");
   (U"common.checkformat_gpg_fingerprint", U"86e3bb7e4431fb481dc5");
   (U"common.checkformat_gpg_signature", U"a3c5515ffb8c9f6183ba");
   (U"common.checkformat_hex_key", U"625afdf8f56eb4c97143");
   (U"common.checkformat_hex_string", U"eac17f8be3d488d4b8a0");
   (U"common.checkformat_key", U"d3466826154e389f099e");
   (U"common.checkformat_list_of_hex_keys", U"4c9121b74cf062a7e2fd");
   (U"common.checkformat_natural_int", U"14f9984b8b7ef6014787");
   (U"common.checkformat_signable", U"dbb8b00a3a3727e018da");
   (U"common.checkformat_signature", U"d544854022da28dcc399");
   (U"common.checkformat_string", U"a139d0a4113d71e93d9f");
   (U"common.checkformat_utc_isoformat", U"6fed4a2332e7258f7147");
   (U"common.is_gpg_signature", U"f236e9c50126a7909e84");
   (U"common.is_hex_key", U"63c7822022cd24f926e2");
   (U"common.is_hex_signature", U"433f44075f931ec629d6");
   (U"common.is_hex_string", U"35e6d253e0c21ac09fca");
   (U"common.is_signable", U"6932517519189d75eb93");
   (U"common.is_signature", U"cc04b1fcfd687d0beea7");
   (U"common.load_metadata_from_file", U"f65eb5087b9ad786f4ff");
   (U"common.write_metadata_to_file", U"7e7340650f276f577b2b")].
Proof. reflexivity. Qed.
(* END SOURCE PINS *)

Print Assumptions C04_chain_integrity.
Print Assumptions C04_version_counts_accepts.
Print Assumptions C04_only_successor_accepted.
Print Assumptions C04_no_replay_no_rollback.
Print Assumptions C04_verdict_history_free.
Print Assumptions C04_below_threshold_rejected.
Print Assumptions C04_powerless_parties_never_move_the_root.
Print Assumptions C04_powerless_offer_is_a_noop.
Print Assumptions C04_witness.
Print Assumptions C04_source_pinned.

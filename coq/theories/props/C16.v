(* C16 -- metadata constructors emit only well-formed, faithful metadata. Property theorems only.
   Clock reads are explicit arguments n1 n2 (seconds since 0001-01-01T00:00:00, microseconds stripped). *)
From CCT Require Import Prelude Hex Num Time Formats Json Auth Construct.
From CCT.Gen Require Params.
From CCT.proofs Require Import HexFacts SigFacts AuthFacts SchemaFacts FamilyFacts ConstructFacts TimeFacts.
From Coq Require Import Lia.
Open Scope N_scope.

(* for ALL argument tuples: an argument error (TypeError / ValueError) or a result *)
Theorem C16_builder_ok_or_argument_error : forall n1 n2 ty dl ver ts ex,
  fam f_tv (build_delegating_metadata n1 n2 ty dl ver ts ex).
Proof. exact builder_family. Qed.

Theorem C16_root_builder_ok_or_argument_error : forall n1 n2 ver rk rt kk kt ts ex,
  fam f_tv (build_root_metadata n1 n2 ver rk rt kk kt ts ex).
Proof. exact root_builder_family. Qed.

(* the builder returns exactly when its argument checks pass, and then returns the arguments verbatim *)
Theorem C16_build_ok_iff : forall n1 n2 ty dl ver ts ex md,
  build_delegating_metadata n1 n2 ty dl ver ts ex = Ok md <->
  let dl' := dflt dl (VDict []) in
  let ts' := dflt ts (VStr (fmt_utc n1)) in
  let ex' := dflt ex (VStr (fmt_utc (n2 + expiry_seconds)%Z)) in
  is_str ty = true /\ utc_str ts' /\ utc_str ex' /\ natural ver /\ delegations_ok dl'
  /\ md = built ty dl' ver ts' ex'.
Proof. exact build_ok_iff. Qed.

Theorem C16_built_is_wellformed : forall n1 n2 ty dl ver ts ex md tys,
  build_delegating_metadata n1 n2 ty dl ver ts ex = Ok md ->
  ty = VStr tys -> In tys Params.supported_dm_types ->
  checkformat_delegating_metadata (env [] md) = Ok tt.
Proof. exact built_is_wellformed. Qed.

Theorem C16_built_verbatim : forall n1 n2 ty dl ver ts ex md,
  build_delegating_metadata n1 n2 ty dl ver ts ex = Ok md ->
  exists c, md = VDict c
    /\ dget c (U"type") = Some ty /\ dget c (U"version") = Some ver
    /\ dget c (U"metadata_spec_version") = Some (VStr Params.spec_version)
    /\ dget c (U"timestamp") = Some (dflt ts (VStr (fmt_utc n1)))
    /\ dget c (U"expiration") = Some (dflt ex (VStr (fmt_utc (n2 + expiry_seconds)%Z)))
    /\ dget c (U"delegations") = Some (dflt dl (VDict []))
    /\ length c = 6%nat.
Proof. exact built_verbatim. Qed.

Theorem C16_root_delegates_both : forall n1 n2 ver rk rt kk kt ts ex md,
  build_root_metadata n1 n2 ver rk rt kk kt ts ex = Ok md ->
  exists c, md = VDict c /\ dget c (U"type") = Some (VStr (U"root")) /\ dget c (U"version") = Some ver
    /\ dget c (U"delegations") =
         Some (VDict [(VStr (U"root"), VDict [(VStr (U"pubkeys"), rk); (VStr (U"threshold"), rt)]);
                      (VStr (U"key_mgr"), VDict [(VStr (U"pubkeys"), kk); (VStr (U"threshold"), kt)])])
    /\ delegation_ok (VDict [(VStr (U"pubkeys"), rk); (VStr (U"threshold"), rt)])
    /\ delegation_ok (VDict [(VStr (U"pubkeys"), kk); (VStr (U"threshold"), kt)])
    /\ checkformat_delegating_metadata (env [] md) = Ok tt.
Proof. exact root_delegates_both. Qed.

Theorem C16_default_times : forall n1 n2 ty dl ver md,
  build_delegating_metadata n1 n2 ty dl ver VNone VNone = Ok md ->
  exists c, md = VDict c /\ dget c (U"timestamp") = Some (VStr (fmt_utc n1))
    /\ dget c (U"expiration") = Some (VStr (fmt_utc (n2 + Params.root_expiry_days * 86400)%Z)).
Proof. exact default_times. Qed.

(* every instant of the years 1..9999 (seconds since 0001-01-01T00:00:00), formatted the way the library formats
   it (isoformat() + "Z"), is accepted by the library's own date checker and read back as the same instant *)
Theorem C16_formatted_time_roundtrip : forall t, (0 <= t < 315537897600)%Z ->
  exists x, parse_utc (fmt_utc t) = Some x /\ instant_of x = t.
Proof. exact parse_fmt_utc. Qed.

(* with defaulted timestamp and expiration the builder succeeds whenever its other arguments are well formed *)
Theorem C16_default_build_succeeds : forall n1 n2 ty dl ver,
  (0 <= n1 < 315537897600)%Z -> (0 <= n2 + expiry_seconds < 315537897600)%Z ->
  is_str ty = true -> natural ver -> delegations_ok (dflt dl (VDict [])) ->
  exists md, build_delegating_metadata n1 n2 ty dl ver VNone VNone = Ok md.
Proof.
  intros n1 n2 ty dl ver H1 H2 Hty Hver Hdl. eexists. apply build_ok_iff. cbv zeta. cbn [dflt].
  split; [exact Hty|]. split; [eexists; split; [reflexivity|apply fmt_utc_ok; exact H1]|].
  split; [eexists; split; [reflexivity|apply fmt_utc_ok; exact H2]|]. split; [exact Hver|]. split; [exact Hdl|reflexivity].
Qed.

(* and then expires strictly after its timestamp, one expiry distance (365 days) plus the time between the two
   clock reads later *)
Theorem C16_default_expiry_strictly_later : forall n1 n2,
  (0 <= n1 < 315537897600)%Z -> (0 <= n2 + expiry_seconds < 315537897600)%Z ->
  exists x1 x2, parse_utc (fmt_utc n1) = Some x1 /\ parse_utc (fmt_utc (n2 + expiry_seconds)) = Some x2
    /\ (instant_of x2 - instant_of x1 = 365 * 86400 + (n2 - n1))%Z
    /\ (n1 <= n2 -> instant_of x1 < instant_of x2)%Z.
Proof.
  intros n1 n2 H1 H2. destruct (default_expiry_distance n1 n2 expiry_seconds H1 H2) as (x1 & x2 & E1 & E2 & Hd).
  exists x1, x2. split; [exact E1|]. split; [exact E2|]. split; [rewrite Hd; reflexivity|].
  intros Hle. assert (He : (expiry_seconds = 365 * 86400)%Z) by reflexivity. rewrite He in Hd. lia.
Qed.

(* the expiry distance the source declares, re-read from the AST on every run *)
Theorem C16_expiry_distance_frozen : Params.root_expiry_days_src = Some 365%Z.
Proof. reflexivity. Qed.

(* non-vacuity: a defaulted build at a concrete instant (2020-02-29T12:00:00) succeeds and expires one year later *)
Definition ex_build :=
  build_root_metadata 63718574400 63718574400 (VInt 1) (VList [VStr (repeat 97 64)]) (VInt 1) (VList []) (VInt 1) VNone VNone.
Example C16_witness :
  match ex_build with
  | Ok md => subscript md (U"timestamp") = Ok (VStr (U"2020-02-29T12:00:00Z"))
             /\ subscript md (U"expiration") = Ok (VStr (U"2021-02-28T12:00:00Z"))
             /\ checkformat_delegating_metadata (env [] md) = Ok tt
  | _ => False
  end.
Proof. vm_compute. repeat split. Qed.

Print Assumptions C16_builder_ok_or_argument_error.
Print Assumptions C16_root_builder_ok_or_argument_error.
Print Assumptions C16_build_ok_iff.
Print Assumptions C16_built_is_wellformed.
Print Assumptions C16_built_verbatim.
Print Assumptions C16_root_delegates_both.
Print Assumptions C16_default_times.
Print Assumptions C16_formatted_time_roundtrip.
Print Assumptions C16_default_build_succeeds.
Print Assumptions C16_default_expiry_strictly_later.
Print Assumptions C16_expiry_distance_frozen.
Print Assumptions C16_witness.

(* C16 -- metadata constructors emit only well-formed, faithful metadata. Property theorems only.
   Clock reads are explicit arguments n1 n2 (seconds since 0001-01-01T00:00:00, microseconds stripped). *)
From CCT Require Import Prelude Hex Num Time Formats Json Auth Construct.
From CCT.Gen Require Pins.
From CCT.Gen Require Params.
From CCT.proofs Require Import HexFacts SigFacts AuthFacts SignableFacts DelegationFacts RootFacts SchemaFacts FamilyFacts ConstructFacts TimeFacts EndToEndFacts.
From Coq Require Import Lia.
Open Scope N_scope.

(* for ALL argument tuples: an argument error (TypeError / ValueError) or a result *)
Theorem C16_builder_ok_or_argument_error : forall n1 n2 ty dl ver ts ex,
  fam f_tv (build_delegating_metadata n1 n2 ty dl ver ts ex).
Proof. exact builder_family. Qed.

Theorem C16_root_builder_ok_or_argument_error : forall n1 n2 ver rk rt kk kt ts ex,
  fam f_tv (build_root_metadata n1 n2 ver rk rt kk kt ts ex).
Proof. exact root_builder_family. Qed.

(* the builder returns exactly when its argument checks pass, and then returns the arguments verbatim *)
Theorem C16_build_ok_iff : forall n1 n2 ty dl ver ts ex md,
  build_delegating_metadata n1 n2 ty dl ver ts ex = Ok md <->
  let dl' := dflt dl (VDict []) in
  let ts' := dflt ts (VStr (fmt_utc n1)) in
  let ex' := dflt ex (VStr (fmt_utc (n2 + expiry_seconds)%Z)) in
  is_str ty = true /\ utc_str ts' /\ utc_str ex' /\ natural ver /\ delegations_ok dl'
  /\ md = built ty dl' ver ts' ex'.
Proof. exact build_ok_iff. Qed.

Theorem C16_built_is_wellformed : forall n1 n2 ty dl ver ts ex md tys,
  build_delegating_metadata n1 n2 ty dl ver ts ex = Ok md ->
  ty = VStr tys -> In tys Params.supported_dm_types ->
  checkformat_delegating_metadata (env [] md) = Ok tt.
Proof. exact built_is_wellformed. Qed.

Theorem C16_built_verbatim : forall n1 n2 ty dl ver ts ex md,
  build_delegating_metadata n1 n2 ty dl ver ts ex = Ok md ->
  exists c, md = VDict c
    /\ dget c (U"type") = Some ty /\ dget c (U"version") = Some ver
    /\ dget c (U"metadata_spec_version") = Some (VStr Params.spec_version)
    /\ dget c (U"timestamp") = Some (dflt ts (VStr (fmt_utc n1)))
    /\ dget c (U"expiration") = Some (dflt ex (VStr (fmt_utc (n2 + expiry_seconds)%Z)))
    /\ dget c (U"delegations") = Some (dflt dl (VDict []))
    /\ length c = 6%nat.
Proof. exact built_verbatim. Qed.

Theorem C16_root_delegates_both : forall n1 n2 ver rk rt kk kt ts ex md,
  build_root_metadata n1 n2 ver rk rt kk kt ts ex = Ok md ->
  exists c, md = VDict c /\ dget c (U"type") = Some (VStr (U"root")) /\ dget c (U"version") = Some ver
    /\ dget c (U"delegations") =
         Some (VDict [(VStr (U"root"), VDict [(VStr (U"pubkeys"), rk); (VStr (U"threshold"), rt)]);
                      (VStr (U"key_mgr"), VDict [(VStr (U"pubkeys"), kk); (VStr (U"threshold"), kt)])])
    /\ delegation_ok (VDict [(VStr (U"pubkeys"), rk); (VStr (U"threshold"), rt)])
    /\ delegation_ok (VDict [(VStr (U"pubkeys"), kk); (VStr (U"threshold"), kt)])
    /\ checkformat_delegating_metadata (env [] md) = Ok tt.
Proof. exact root_delegates_both. Qed.

Theorem C16_default_times : forall n1 n2 ty dl ver md,
  build_delegating_metadata n1 n2 ty dl ver VNone VNone = Ok md ->
  exists c, md = VDict c /\ dget c (U"timestamp") = Some (VStr (fmt_utc n1))
    /\ dget c (U"expiration") = Some (VStr (fmt_utc (n2 + Params.root_expiry_days * 86400)%Z)).
Proof. exact default_times. Qed.

(* every instant of the years 1..9999 (seconds since 0001-01-01T00:00:00), formatted the way the library formats
   it (isoformat() + "Z"), is accepted by the library's own date checker and read back as the same instant *)
Theorem C16_formatted_time_roundtrip : forall t, (0 <= t < 315537897600)%Z ->
  exists x, parse_utc (fmt_utc t) = Some x /\ instant_of x = t.
Proof. exact parse_fmt_utc. Qed.

(* with defaulted timestamp and expiration the builder succeeds whenever its other arguments are well formed *)
Theorem C16_default_build_succeeds : forall n1 n2 ty dl ver,
  (0 <= n1 < 315537897600)%Z -> (0 <= n2 + expiry_seconds < 315537897600)%Z ->
  is_str ty = true -> natural ver -> delegations_ok (dflt dl (VDict [])) ->
  exists md, build_delegating_metadata n1 n2 ty dl ver VNone VNone = Ok md.
Proof.
  intros n1 n2 ty dl ver H1 H2 Hty Hver Hdl. eexists. apply build_ok_iff. cbv zeta. cbn [dflt].
  split; [exact Hty|]. split; [eexists; split; [reflexivity|apply fmt_utc_ok; exact H1]|].
  split; [eexists; split; [reflexivity|apply fmt_utc_ok; exact H2]|]. split; [exact Hver|]. split; [exact Hdl|reflexivity].
Qed.

(* and then expires strictly after its timestamp, one expiry distance (365 days) plus the time between the two
   clock reads later *)
Theorem C16_default_expiry_strictly_later : forall n1 n2,
  (0 <= n1 < 315537897600)%Z -> (0 <= n2 + expiry_seconds < 315537897600)%Z ->
  exists x1 x2, parse_utc (fmt_utc n1) = Some x1 /\ parse_utc (fmt_utc (n2 + expiry_seconds)) = Some x2
    /\ (instant_of x2 - instant_of x1 = 365 * 86400 + (n2 - n1))%Z
    /\ (n1 <= n2 -> instant_of x1 < instant_of x2)%Z.
Proof.
  intros n1 n2 H1 H2. destruct (default_expiry_distance n1 n2 expiry_seconds H1 H2) as (x1 & x2 & E1 & E2 & Hd).
  exists x1, x2. split; [exact E1|]. split; [exact E2|]. split; [rewrite Hd; reflexivity|].
  intros Hle. assert (He : (expiry_seconds = 365 * 86400)%Z) by reflexivity. rewrite He in Hd. lia.
Qed.

(* the expiry distance the source declares, re-read from the AST on every run *)
Theorem C16_expiry_distance_frozen : Params.root_expiry_days_src = Some 365%Z.
Proof. reflexivity. Qed.

(* non-vacuity: a defaulted build at a concrete instant (2020-02-29T12:00:00) succeeds and expires one year later *)
Definition ex_build :=
  build_root_metadata 63718574400 63718574400 (VInt 1) (VList [VStr (repeat 97 64)]) (VInt 1) (VList []) (VInt 1) VNone VNone.
Example C16_witness :
  match ex_build with
  | Ok md => subscript md (U"timestamp") = Ok (VStr (U"2020-02-29T12:00:00Z"))
             /\ subscript md (U"expiration") = Ok (VStr (U"2021-02-28T12:00:00Z"))
             /\ checkformat_delegating_metadata (env [] md) = Ok tt
  | _ => False
  end.
Proof. vm_compute. repeat split. Qed.

(* end to end: two roots produced by build_root_metadata with versions z and z+1, the second one carrying valid OpenPGP-mode
   entries by a threshold of the first one's root keys and by a threshold of its own, form an accepted link of the root chain
   (builders C16 + envelope verifier C02 + update rule C03), whatever else the two signature maps hold *)
Theorem C16_built_roots_chain : forall ed_verify sha256 n1 n2 n1' n2' ver ver' klo tzo kk kt ts ex kln tzn kk' kt' ts' ex' md md' z data sm0 sm cso csn,
  build_root_metadata n1 n2 ver (VList klo) (VInt tzo) kk kt ts ex = Ok md ->
  build_root_metadata n1' n2' ver' (VList kln) (VInt tzn) kk' kt' ts' ex' = Ok md' ->
  int_value ver = Some z -> int_value ver' = Some (z + 1)%Z ->
  canonserialize md' = Ok data ->
  Forall (fun kv => raw_shape (snd kv) \/ gpg_shape (snd kv)) sm0 ->
  Forall (fun kv => raw_shape (snd kv) \/ gpg_shape (snd kv)) sm ->
  Forall (fun kv => entry_small (snd kv)) sm ->
  NoDup cso -> incl cso sm -> (tzo <= Z.of_nat (length cso))%Z -> Forall (fun kv => valid_entry ed_verify sha256 true klo data (fst kv) (snd kv)) cso ->
  NoDup csn -> incl csn sm -> (tzn <= Z.of_nat (length csn))%Z -> Forall (fun kv => valid_entry ed_verify sha256 true kln data (fst kv) (snd kv)) csn ->
  verify_root ed_verify sha256 (env sm0 md) (env sm md') = Ok tt.
Proof. exact built_roots_chain. Qed.

(* non-vacuity of the chain theorem: with a verification primitive that accepts (a stand-in: the premises about valid entries are
   then satisfiable by any OpenPGP-shaped entry under a root key), two built roots are linked; with one that refuses, they are not *)
Definition ex_ck (c : N) := VStr (repeat c 64).
Definition ex_gpg_entry := VDict [(VStr (U"other_headers"), VStr (U"04ff")); (VStr (U"signature"), VStr (repeat 48 128))].
Example C16_chain_witness :
  match build_root_metadata 0 0 (VInt 1) (VList [ex_ck 97; ex_ck 98]) (VInt 2) (VList [ex_ck 99]) (VInt 1) (VStr (U"2020-01-01T00:00:00Z")) (VStr (U"2030-01-01T00:00:00Z")),
        build_root_metadata 0 0 (VInt 2) (VList [ex_ck 98]) (VInt 1) (VList [ex_ck 99]) (VInt 1) (VStr (U"2021-01-01T00:00:00Z")) (VStr (U"2031-01-01T00:00:00Z")) with
  | Ok md, Ok md' =>
      verify_root (fun _ _ _ => true) (fun x => x) (env [] md) (env [(ex_ck 97, ex_gpg_entry); (ex_ck 98, ex_gpg_entry)] md') = Ok tt
      /\ verify_root (fun _ _ _ => true) (fun x => x) (env [] md) (env [(ex_ck 98, ex_gpg_entry)] md') = Err SignatureError
      /\ verify_root (fun _ _ _ => false) (fun x => x) (env [] md) (env [(ex_ck 97, ex_gpg_entry); (ex_ck 98, ex_gpg_entry)] md') = Err SignatureError
  | _, _ => False
  end.
Proof. vm_compute. repeat split. Qed.

(* BEGIN SOURCE PINS -- written by harness/mkpins.py; the list is what Gen/Pins.v held for the tree the model was validated against *)
(* the functions of the package this property depends on (call-graph closure of its entry points), each with the fingerprint of its
   logic (AST without docstrings, annotations, messages, local names): the model and the correspondence runs were validated against
   exactly these; a change of logic in any of them breaks this obligation and the check then searches for a failing input *)
Theorem C16_source_pinned : CCT.Gen.Pins.pinned_C16 =
  [(U"common.checkformat_delegation", U"25fc9c6692b07cdca131");
   (U"common.checkformat_delegations", U"d6a7d445f5f827a1471c");
   (U"common.checkformat_expiration_distance", U"65fe8ef409fef94d863f");
   (U"common.checkformat_hex_key", U"625afdf8f56eb4c97143");
   (U"common.checkformat_hex_string", U"eac17f8be3d488d4b8a0");
   (U"common.checkformat_list_of_hex_keys", U"4c9121b74cf062a7e2fd");
   (U"common.checkformat_natural_int", U"14f9984b8b7ef6014787");
   (U"common.checkformat_string", U"a139d0a4113d71e93d9f");
   (U"common.checkformat_utc_isoformat", U"6fed4a2332e7258f7147");
   (U"common.is_hex_key", U"63c7822022cd24f926e2");
   (U"common.iso8601_time_plus_delta", U"b5c8f3a544c082f9486e");
   (U"metadata_construction.build_delegating_metadata", U"d8e9ea184be1b053698e");
   (U"metadata_construction.build_root_metadata", U"b709b1962b5fff5388d0")].
Proof. reflexivity. Qed.
(* END SOURCE PINS *)

Print Assumptions C16_built_roots_chain.
Print Assumptions C16_chain_witness.
Print Assumptions C16_builder_ok_or_argument_error.
Print Assumptions C16_root_builder_ok_or_argument_error.
Print Assumptions C16_build_ok_iff.
Print Assumptions C16_built_is_wellformed.
Print Assumptions C16_built_verbatim.
Print Assumptions C16_root_delegates_both.
Print Assumptions C16_default_times.
Print Assumptions C16_formatted_time_roundtrip.
Print Assumptions C16_default_build_succeeds.
Print Assumptions C16_default_expiry_strictly_later.
Print Assumptions C16_expiry_distance_frozen.
Print Assumptions C16_witness.
Print Assumptions C16_source_pinned.

(* C09, source tie -- wrap_as_signable AS WRITTEN in signing.py: translated from the working tree on every run (Gen/Source.v, by
   harness/translate_src.py, which follows `from .common import ...` for the constants and functions a module uses), interpreted by
   PySrc.run_prog.  Property theorems only.  Tie obligations (see props/C15_src.v). *)
From Coq Require Import String.
From CCT Require Import Prelude Hex Num Time Formats Json Auth Signing PySrc.
From CCT.Gen Require Source Params.
From CCT.proofs Require Import SourceFacts SourceWrapFacts.

Theorem C09src_translated :
  existsb (String.eqb "wrap_as_signable") (map fst Source.program) = true /\ Source.call_graph_acyclic = true.
Proof. split; reflexivity. Qed.

(* the function in the source is the model's, for every value *)
Theorem C09src_wrap_refines : forall v, run_prog Source.program "wrap_as_signable" [v] = wrap_as_signable v.
Proof. exact src_wrap_as_signable. Qed.

(* wrapping succeeds exactly for the serializable types (the tuple re-read from the source into Gen/Params.v) and then yields the
   two-field envelope, empty signature map, payload unchanged; anything else is TypeError *)
Theorem C09src_wrap_iff_serializable_type : forall v,
  (type_in v Params.serializable_types = true ->
     run_prog Source.program "wrap_as_signable" [v] = Ok (VDict [(VStr (U"signatures"), VDict []); (VStr (U"signed"), v)]))
  /\ (type_in v Params.serializable_types = false -> run_prog Source.program "wrap_as_signable" [v] = Err TypeError).
Proof. exact src_wrap_meaning. Qed.

Example C09src_witness :
  run_prog Source.program "wrap_as_signable" [VList [VInt 1; VBool true]]
    = Ok (VDict [(VStr (U"signatures"), VDict []); (VStr (U"signed"), VList [VInt 1; VBool true])])
  /\ run_prog Source.program "wrap_as_signable" [VNone] = Ok (VDict [(VStr (U"signatures"), VDict []); (VStr (U"signed"), VNone)])
  /\ run_prog Source.program "wrap_as_signable" [VBytes [1]] = Err TypeError
  /\ run_prog Source.program "wrap_as_signable" [VSet []] = Err TypeError.
Proof. repeat split; vm_compute; reflexivity. Qed.

Print Assumptions C09src_translated.
Print Assumptions C09src_wrap_refines.
Print Assumptions C09src_wrap_iff_serializable_type.
Print Assumptions C09src_witness.

(* C17 -- CLI exit status and output reflect the library's verdict. Property theorems only.
   Files are modelled as already loaded values (None = unreadable / not JSON: the loader raises, status 1).
   Entry-point wiring is re-read from the tree on every run (Gen/Entry.v). *)
From CCT Require Import Prelude Hex Num Time Formats Json Auth Signing Cli.
From CCT.Gen Require Params Entry.
From CCT.proofs Require Import HexFacts SigFacts AuthFacts SchemaFacts FamilyFacts CliFacts.
Open Scope N_scope.

(* exit codes the source returns, re-read from the AST: 0 in both try bodies, 10 / 20 in the CCT_Error handlers *)
Theorem C17_codes_frozen :
  Params.verify_exit_codes = Some [(0%Z, U"CCT_Error", 10%Z); (0%Z, U"CCT_Error", 20%Z)].
Proof. reflexivity. Qed.

(* status zero and the success line <-> both files load and the library accepts the second on the basis of the first
   (verify_root when it declares type root, otherwise verify_delegation for its declared type) *)
Theorem C17_verify_exit_zero_iff : forall ed_verify sha256 t u,
  cli_verify_metadata ed_verify sha256 t u = Exit 0 true <->
  exists t' u', t = Some t' /\ u = Some u' /\
    exists sd ty, subscript u' (U"signed") = Ok sd /\ subscript sd (U"type") = Ok ty /\
      ((ty = VStr (U"root") /\ verify_root ed_verify sha256 t' u' = Ok tt)
       \/ (ty <> VStr (U"root") /\ verify_delegation ed_verify sha256 ty u' t' (VBool false) = Ok tt)).
Proof. exact verify_exit_zero_iff. Qed.

Theorem C17_status_zero_iff_success : forall ed_verify sha256 t u z,
  status (cli_verify_metadata ed_verify sha256 t u) = Some z ->
  (z = 0%Z <-> cli_verify_metadata ed_verify sha256 t u = Exit 0 true).
Proof. exact status_zero_iff_success. Qed.

Theorem C17_reject_codes : forall ed_verify sha256 t u c b,
  cli_verify_metadata ed_verify sha256 t u = Exit c b -> (c = 0%Z /\ b = true) \/ ((c = 10%Z \/ c = 20%Z) /\ b = false).
Proof. exact reject_codes. Qed.

(* every way the tool can be started hands the dispatcher's return value to the process exit status *)
Theorem C17_entry_points_faithful :
  forallb snd Entry.entry_points = true /\ length Entry.entry_points = 3%nat
  /\ Entry.dispatcher_returns_status = true
  /\ Entry.sign_abort_code = Some 1%Z /\ Entry.sign_has_other_returns = false /\ Entry.sign_key_normalised = true.
Proof. exact entry_points_faithful. Qed.

(* the signing subcommand exits zero only if it actually signed *)
Theorem C17_sign_zero_only_if_signed : forall ed_pub ed_sign keytext r,
  sign_status (cli_sign_artifacts ed_pub ed_sign keytext r) = Some 0%Z ->
  exists s r0 w, keytext = Some s /\ r = Some r0 /\ is_hex_key (VStr (lower_ascii (strip s))) = true
                 /\ sign_all_value ed_pub ed_sign r0 (VStr (lower_ascii (strip s))) = Ok w
                 /\ cli_sign_artifacts ed_pub ed_sign keytext r = Signed w.
Proof. exact sign_zero_only_if_signed. Qed.

Example C17_witness :
  cli_verify_metadata (fun _ _ _ => true) (fun b => b) None (Some VNone) = Crash
  /\ cli_verify_metadata (fun _ _ _ => true) (fun b => b) (Some VNone) (Some (VDict [(VStr (U"signed"), VDict [(VStr (U"type"), VStr (U"root"))])])) = Crash
  /\ cli_sign_artifacts (fun _ => []) (fun _ _ => []) (Some (U"not a key")) (Some VNone) = SignExit 1
  /\ strip (U"  abc
 ") = U"abc".
Proof. vm_compute. repeat split. Qed.

Print Assumptions C17_codes_frozen.
Print Assumptions C17_verify_exit_zero_iff.
Print Assumptions C17_status_zero_iff_success.
Print Assumptions C17_reject_codes.
Print Assumptions C17_entry_points_faithful.
Print Assumptions C17_sign_zero_only_if_signed.
Print Assumptions C17_witness.

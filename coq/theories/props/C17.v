(* C17 -- CLI exit status and output reflect the library's verdict. Property theorems only.
   Files are modelled as already loaded values (None = unreadable / not JSON: the loader raises, status 1).
   Entry-point wiring is re-read from the tree on every run (Gen/Entry.v). *)
From CCT Require Import Prelude Hex Num Time Formats Json Auth Signing Cli.
From CCT.Gen Require Pins.
From CCT.Gen Require Params Entry.
From CCT.proofs Require Import HexFacts SigFacts AuthFacts SchemaFacts FamilyFacts CliFacts.
Open Scope N_scope.

(* exit codes the source returns, re-read from the AST: 0 in both try bodies, 10 / 20 in the CCT_Error handlers *)
Theorem C17_codes_frozen :
  Params.verify_exit_codes = Some [(0%Z, U"CCT_Error", 10%Z); (0%Z, U"CCT_Error", 20%Z)].
Proof. reflexivity. Qed.

(* status zero and the success line <-> both files load and the library accepts the second on the basis of the first
   (verify_root when it declares type root, otherwise verify_delegation for its declared type) *)
Theorem C17_verify_exit_zero_iff : forall ed_verify sha256 t u,
  cli_verify_metadata ed_verify sha256 t u = Exit 0 true <->
  exists t' u', t = Some t' /\ u = Some u' /\
    exists sd ty, subscript u' (U"signed") = Ok sd /\ subscript sd (U"type") = Ok ty /\
      ((ty = VStr (U"root") /\ verify_root ed_verify sha256 t' u' = Ok tt)
       \/ (ty <> VStr (U"root") /\ verify_delegation ed_verify sha256 ty u' t' (VBool false) = Ok tt)).
Proof. exact verify_exit_zero_iff. Qed.

Theorem C17_status_zero_iff_success : forall ed_verify sha256 t u z,
  status (cli_verify_metadata ed_verify sha256 t u) = Some z ->
  (z = 0%Z <-> cli_verify_metadata ed_verify sha256 t u = Exit 0 true).
Proof. exact status_zero_iff_success. Qed.

(* the same statement about the two FILES as they are on disk: loading (json.load on the binary file: encoding guess, byte-order mark,
   UTF-8 with surrogatepass, the parser of C07) is part of the model; a missing or unloadable file is an error *)
Theorem C17_files_exit_zero_iff : forall ed_verify sha256 tf uf,
  cli_verify_metadata_files ed_verify sha256 tf uf = Exit 0 true <->
  exists tb ub t' u', tf = Some tb /\ uf = Some ub /\ CCT.JsonParse.load_file tb = Ok t' /\ CCT.JsonParse.load_file ub = Ok u' /\
    exists sd ty, subscript u' (U"signed") = Ok sd /\ subscript sd (U"type") = Ok ty /\
      ((ty = VStr (U"root") /\ verify_root ed_verify sha256 t' u' = Ok tt)
       \/ (ty <> VStr (U"root") /\ verify_delegation ed_verify sha256 ty u' t' (VBool false) = Ok tt)).
Proof. exact files_exit_zero_iff. Qed.

Theorem C17_files_status_zero_iff_success : forall ed_verify sha256 tf uf z,
  status (cli_verify_metadata_files ed_verify sha256 tf uf) = Some z ->
  (z = 0%Z <-> cli_verify_metadata_files ed_verify sha256 tf uf = Exit 0 true).
Proof. exact files_status_zero_iff_success. Qed.

Theorem C17_reject_codes : forall ed_verify sha256 t u c b,
  cli_verify_metadata ed_verify sha256 t u = Exit c b -> (c = 0%Z /\ b = true) \/ ((c = 10%Z \/ c = 20%Z) /\ b = false).
Proof. exact reject_codes. Qed.

(* every way the tool can be started hands the dispatcher's return value to the process exit status *)
Theorem C17_entry_points_faithful :
  forallb snd Entry.entry_points = true /\ length Entry.entry_points = 3%nat
  /\ Entry.dispatcher_returns_status = true
  /\ Entry.sign_abort_code = Some 1%Z /\ Entry.sign_has_other_returns = false /\ Entry.sign_key_normalised = true.
Proof. exact entry_points_faithful. Qed.

(* the signing subcommand exits zero only if it actually signed *)
Theorem C17_sign_zero_only_if_signed : forall ed_pub ed_sign keytext r,
  sign_status (cli_sign_artifacts ed_pub ed_sign keytext r) = Some 0%Z ->
  exists s r0 w, keytext = Some s /\ r = Some r0 /\ is_hex_key (VStr (lower_ascii (strip s))) = true
                 /\ sign_all_value ed_pub ed_sign r0 (VStr (lower_ascii (strip s))) = Ok w
                 /\ cli_sign_artifacts ed_pub ed_sign keytext r = Signed w.
Proof. exact sign_zero_only_if_signed. Qed.

Example C17_witness :
  cli_verify_metadata (fun _ _ _ => true) (fun b => b) None (Some VNone) = Crash
  /\ cli_verify_metadata (fun _ _ _ => true) (fun b => b) (Some VNone) (Some (VDict [(VStr (U"signed"), VDict [(VStr (U"type"), VStr (U"root"))])])) = Crash
  /\ cli_sign_artifacts (fun _ => []) (fun _ _ => []) (Some (U"not a key")) (Some VNone) = SignExit 1
  /\ strip (U"  abc
 ") = U"abc".
Proof. vm_compute. repeat split. Qed.

(* BEGIN SOURCE PINS -- written by harness/mkpins.py; the list is what Gen/Pins.v held for the tree the model was validated against *)
(* the functions of the package this property depends on (call-graph closure of its entry points), each with the fingerprint of its
   logic (AST without docstrings, annotations, messages, local names): the model and the correspondence runs were validated against
   exactly these; a change of logic in any of them breaks this obligation and the check then searches for a failing input *)
Theorem C17_source_pinned : CCT.Gen.Pins.pinned_C17 =
  [(U"authentication._ascii", U"5f6fc6aad21f14d47c4f");
   (U"authentication.verify_delegation", U"5dc5b9065823f0f50085");
   (U"authentication.verify_gpg_signature", U"ccbe2bc800d02410d16b");
   (U"authentication.verify_root", U"6692242951185dc7604b");
   (U"authentication.verify_signable", U"1bd56f9b4f5e7bcd88d9");
   (U"authentication.verify_signature", U"7e0a2d567df7e9f0cdd4");
   (U"cli.build_parser", U"e548581383787799f08b");
   (U"cli.cli", U"86f8869b253d8b7f7476");
   (U"cli.cli_sign_artifacts", U"e5623e5eff2b90c6f506");
   (U"cli.cli_verify_metadata", U"bac4c5e1045d42c3d9b9");
   (U"common.MixinKey.from_hex", U"a6e4e81c0b16461490a5");
   (U"common.MixinKey.to_hex", U"fcdaef7ed3d503ba84df");
   (U"common.PrivateKey.from_bytes", U"2cb488fc935b61f65bba");
   (U"common.PrivateKey.to_bytes", U"c9564ea6ce46886b972b");
   (U"common.PublicKey.from_bytes", U"a439db0d070397bc2b47");
   (U"common.PublicKey.to_bytes", U"1167c2299d20a5c711f2");
   (U"common.canonserialize", U"64fc1dee1d7349d7a920");
   (U"common.checkformat_any_signature", U"82ba0ed515a770fad8a9");
   (U"common.checkformat_byteslike", U"1c9da61d15ff3a1a9f97");
   (U"common.checkformat_delegating_metadata", U"b013c9fa5677f3b3f637");
   (U"common.checkformat_delegation", U"25fc9c6692b07cdca131");
   (U"common.checkformat_delegations", U"d6a7d445f5f827a1471c");
   (U"common.checkformat_gpg_fingerprint", U"86e3bb7e4431fb481dc5");
   (U"common.checkformat_gpg_signature", U"a3c5515ffb8c9f6183ba");
   (U"common.checkformat_hex_key", U"625afdf8f56eb4c97143");
   (U"common.checkformat_hex_string", U"eac17f8be3d488d4b8a0");
   (U"common.checkformat_key", U"d3466826154e389f099e");
   (U"common.checkformat_list_of_hex_keys", U"4c9121b74cf062a7e2fd");
   (U"common.checkformat_natural_int", U"14f9984b8b7ef6014787");
   (U"common.checkformat_signable", U"dbb8b00a3a3727e018da");
   (U"common.checkformat_signature", U"d544854022da28dcc399");
   (U"common.checkformat_string", U"a139d0a4113d71e93d9f");
   (U"common.checkformat_utc_isoformat", U"6fed4a2332e7258f7147");
   (U"common.is_gpg_signature", U"f236e9c50126a7909e84");
   (U"common.is_hex_key", U"63c7822022cd24f926e2");
   (U"common.is_hex_signature", U"433f44075f931ec629d6");
   (U"common.is_hex_string", U"35e6d253e0c21ac09fca");
   (U"common.is_signable", U"6932517519189d75eb93");
   (U"common.is_signature", U"cc04b1fcfd687d0beea7");
   (U"common.load_metadata_from_file", U"f65eb5087b9ad786f4ff");
   (U"common.write_metadata_to_file", U"7e7340650f276f577b2b");
   (U"signing.serialize_and_sign", U"b494a1c320877296ecf6");
   (U"signing.sign_all_in_repodata", U"acae37496ef25356cf28")].
Proof. reflexivity. Qed.
(* END SOURCE PINS *)

Print Assumptions C17_codes_frozen.
Print Assumptions C17_verify_exit_zero_iff.
Print Assumptions C17_status_zero_iff_success.
Print Assumptions C17_files_exit_zero_iff.
Print Assumptions C17_files_status_zero_iff_success.
Print Assumptions C17_reject_codes.
Print Assumptions C17_entry_points_faithful.
Print Assumptions C17_sign_zero_only_if_signed.
Print Assumptions C17_witness.
Print Assumptions C17_source_pinned.

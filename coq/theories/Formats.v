(* Formats.v: transcription of the validators of conda_content_trust/common.py,
   check by check, in source order.  Definitions only. *)
From CCT Require Import Prelude Hex Num Time.
From CCT.Gen Require Params.
Open Scope N_scope.

(* ---- checkformat_hex_string / is_hex_string  (common.py:286-314) *)
Definition checkformat_hex_string (v : pv) : res unit :=
  match v with
  | VStr s =>
      match fromhex s with
      | None => Err ValueError
      | Some _ =>
          if negb (isalnum_hexws s) || negb (ustr_eqb (lower_hexws s) s)
          then Err ValueError else Ok tt
      end
  | _ => Err TypeError                       (* bytes.fromhex(non-str) *)
  end.
Definition is_hex_string (v : pv) : bool := is_ok (checkformat_hex_string v).

Definition len_is (v : pv) (n : nat) : bool :=
  match py_len v with Ok k => Nat.eqb k n | _ => false end.

(* ---- is_hex_signature (common.py:317-328) *)
Definition is_hex_signature (v : pv) : bool := is_hex_string v && len_is v Params.sig_len.

(* ---- checkformat_hex_key / is_hex_key (common.py:331-343, 422-428) *)
Definition checkformat_hex_key (v : pv) : res unit :=
  checkformat_hex_string v ;;;
  if len_is v Params.key_len then Ok tt else Err ValueError.
Definition is_hex_key (v : pv) : bool := is_ok (checkformat_hex_key v).

(* ---- is_signable / checkformat_signable (common.py:346-378) *)
Definition is_signable (v : pv) : bool :=
  match v with
  | VDict m =>
      keys_are2 m (U"signatures") (U"signed")
      && match dget m (U"signatures") with Some s => is_dict s | None => false end
      && match dget m (U"signed") with Some x => type_in x Params.serializable_types | None => false end
  | _ => false
  end.
Definition checkformat_signable (v : pv) : res unit :=
  if is_signable v then Ok tt else Err TypeError.

(* ---- checkformat_byteslike (common.py:385-389): hasattr(x, "decode") *)
Definition checkformat_byteslike (v : pv) : res unit :=
  match v with VBytes _ | VBytearray _ => Ok tt | _ => Err TypeError end.

(* ---- checkformat_natural_int (common.py:392-) with the OverflowError repair *)
Definition checkformat_natural_int (v : pv) : res unit :=
  match py_int v with
  | Err OverflowError => Err ValueError
  | Err e => Err e
  | Unmodelled => Unmodelled
  | Ok (IntIs _ same) =>
      if negb same then Err ValueError
      else lt <- py_lt_int v 1 ;; if (lt : bool) then Err ValueError else Ok tt
  end.

(* ---- checkformat_string *)
Definition checkformat_string (v : pv) : res unit :=
  if is_str v then Ok tt else Err TypeError.

(* ---- checkformat_expiration_distance *)
Definition checkformat_expiration_distance (v : pv) : res unit :=
  match v with VDelta _ _ _ => Ok tt | _ => Err TypeError end.

(* ---- checkformat_list_of_hex_keys (common.py:431-449) *)
Fixpoint check_each (f : pv -> res unit) (l : list pv) : res unit :=
  match l with [] => Ok tt | x :: r => f x ;;; check_each f r end.

Fixpoint str_nodupb (l : list pv) : bool :=
  match l with
  | [] => true
  | x :: r => match x with
              | VStr s => negb (existsb (key_is s) r) && str_nodupb r
              | _ => false
              end
  end.

Definition checkformat_list_of_hex_keys (v : pv) : res unit :=
  match v with
  | VList l =>
      check_each checkformat_hex_key l ;;;
      if str_nodupb l then Ok tt else Err ValueError
  | _ => Err TypeError
  end.

(* ---- checkformat_utc_isoformat (common.py:452-463): every failure is TypeError *)
Definition checkformat_utc_isoformat (v : pv) : res unit :=
  match v with
  | VStr s => if utc_ok s then Ok tt else Err TypeError
  | _ => Err TypeError
  end.

(* ---- checkformat_gpg_fingerprint / is_gpg_fingerprint (common.py:466-505) *)
Definition checkformat_gpg_fingerprint (v : pv) : res unit :=
  n <- py_len v ;;
  if negb (Nat.eqb n Params.fpr_len) then Err ValueError
  else match v with
       | VStr s =>
           match fromhex s with
           | None => Err ValueError
           | Some _ =>
               if negb (isalnum_hexws s) || negb (ustr_eqb (lower_hexws s) s)
               then Err ValueError else Ok tt
           end
       | _ => Err TypeError
       end.
Definition is_gpg_fingerprint (v : pv) : bool :=
  match catch_tv (checkformat_gpg_fingerprint v) with Ok b => b | _ => false end.

(* ---- checkformat_gpg_signature / is_gpg_signature (common.py:508-569) *)
Definition all_str_keys (m : list (pv * pv)) : bool := forallb (fun kv => is_str (fst kv)) m.

(* sorted(list(d.keys())) in [[other_headers, signature], [other_headers, see_also, signature]]
   for a dict whose keys are all str and pairwise distinct *)
Definition gpg_keyset (m : list (pv * pv)) : option bool (* Some has_see_also *) :=
  match length m with
  | 2%nat => if dhas m (U"other_headers") && dhas m (U"signature") then Some false else None
  | 3%nat => if dhas m (U"other_headers") && dhas m (U"signature") && dhas m (U"see_also")
             then Some true else None
  | _ => None
  end.

Definition checkformat_gpg_signature (v : pv) : res unit :=
  match v with
  | VDict m =>
      if negb (all_str_keys m) && (2 <=? length m)%nat then Unmodelled   (* sorted() of mixed keys may raise TypeError *)
      else match gpg_keyset m with
      | None => Err ValueError
      | Some has_see =>
          oh <- subscript v (U"other_headers") ;;
          if negb (is_hex_string oh) then Err ValueError else
          sg <- subscript v (U"signature") ;;
          if negb (is_hex_signature sg) then Err ValueError else
          if has_see then (sa <- subscript v (U"see_also") ;; checkformat_gpg_fingerprint sa)
          else Ok tt
      end
  | _ => Err TypeError
  end.

(* the predicate catches both TypeError and ValueError, so the sorted() corner is just False *)
Definition is_gpg_signature (v : pv) : bool :=
  match v with
  | VDict m =>
      if negb (all_str_keys m) then false
      else is_ok (checkformat_gpg_signature v)
  | _ => false
  end.

(* ---- checkformat_signature / is_signature (common.py:572-643) *)
Definition checkformat_signature (v : pv) : res unit :=
  match v with
  | VDict m =>
      match dget m (U"signature") with
      | Some sg =>
          if negb (is_hex_signature sg) then Err ValueError
          else if Nat.eqb (length m) 1 then Ok tt
          else if is_gpg_signature v then Ok tt
          else Err ValueError
      | None => Err ValueError
      end
  | _ => Err TypeError
  end.
Definition is_signature (v : pv) : bool := is_ok (checkformat_signature v).

(* ---- checkformat_any_signature (common.py:837-846) *)
Definition checkformat_any_signature (v : pv) : res unit :=
  if negb (is_signature v) && negb (is_gpg_signature v) then Err ValueError else Ok tt.

(* ---- checkformat_delegation (common.py:649-685) *)
Definition checkformat_delegation (v : pv) : res unit :=
  match v with
  | VDict m =>
      if negb (keys_are2 m (U"threshold") (U"pubkeys")) then Err ValueError else
      th <- subscript v (U"threshold") ;;
      ge <- py_ge_int th 1 ;;
      if negb ge then Err ValueError else
      pk <- subscript v (U"pubkeys") ;;
      match pk with
      | VList l =>
          if negb (forallb is_hex_key l) then Err ValueError else
          checkformat_list_of_hex_keys pk ;;;
          checkformat_natural_int th
      | _ => Err ValueError
      end
  | _ => Err TypeError
  end.

(* ---- checkformat_delegations (common.py:688-710) *)
Fixpoint check_delegation_items (m : list (pv * pv)) : res unit :=
  match m with
  | [] => Ok tt
  | (k, d) :: r => checkformat_string k ;;; checkformat_delegation d ;;; check_delegation_items r
  end.
Definition checkformat_delegations (v : pv) : res unit :=
  match v with VDict m => check_delegation_items m | _ => Err TypeError end.

(* ---- checkformat_delegating_metadata (common.py:716-834) *)
Fixpoint require_fields (c : pv) (fs : list ustr) : res unit :=
  match fs with
  | [] => Ok tt
  | f :: r => b <- py_in_str f c ;; if (b : bool) then require_fields c r else Err ValueError
  end.

Definition str_in (s : ustr) (l : list ustr) : bool := existsb (ustr_eqb s) l.

Definition checkformat_delegating_metadata (v : pv) : res unit :=
  checkformat_signable v ;;;
  sigs <- subscript v (U"signatures") ;;
  match sigs with
  | VDict sm => check_each checkformat_any_signature (map snd sm)
  | _ => Err TypeError
  end ;;;
  c <- subscript v (U"signed") ;;
  require_fields c [U"type"; U"metadata_spec_version"; U"delegations"; U"expiration"] ;;;
  ty <- subscript c (U"type") ;;
  checkformat_string ty ;;;
  match ty with
  | VStr tys =>
      if negb (str_in tys Params.supported_dm_types) then Err ValueError else
      sv <- subscript c (U"metadata_spec_version") ;;
      checkformat_string sv ;;;
      dl <- subscript c (U"delegations") ;;
      checkformat_delegations dl ;;;
      ex <- subscript c (U"expiration") ;;
      checkformat_utc_isoformat ex ;;;
      has_ts <- py_in_str (U"timestamp") c ;;
      has_v <- py_in_str (U"version") c ;;
      if negb has_ts && negb has_v then Err ValueError else
      if ustr_eqb tys (U"root") && negb has_v then Err ValueError else
      (if (has_ts : bool) then (ts <- subscript c (U"timestamp") ;; checkformat_utc_isoformat ts) else Ok tt) ;;;
      (if (has_v : bool) then (ve <- subscript c (U"version") ;; checkformat_natural_int ve) else Ok tt)
  | _ => Err TypeError
  end.

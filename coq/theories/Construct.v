(* Construct.v: value-level transcription of metadata_construction.py builders.
   Clock reads are explicit arguments (seconds since 0001-01-01T00:00:00, microseconds stripped). *)
From CCT Require Import Prelude Hex Num Time Formats.
From CCT.Gen Require Params.
Open Scope N_scope.

Definition expiry_seconds : Z := Params.root_expiry_days * 86400.

(* build_delegating_metadata(metadata_type, delegations=None, version=1, timestamp=None, expiration=None)
   now_ts / now_ex: the clock values read for a defaulted timestamp / expiration (read in that order) *)
Definition build_delegating_metadata (now_ts now_ex : Z) (ty dl ver ts ex : pv) : res pv :=
  let dl := match dl with VNone => VDict [] | _ => dl end in
  let ts := match ts with VNone => VStr (fmt_utc now_ts) | _ => ts end in
  let ex := match ex with VNone => VStr (fmt_utc (now_ex + expiry_seconds)%Z) | _ => ex end in
  checkformat_string ty ;;;
  checkformat_utc_isoformat ts ;;;
  checkformat_utc_isoformat ex ;;;
  checkformat_natural_int ver ;;;
  checkformat_delegations dl ;;;
  Ok (VDict [(VStr (U"type"), ty); (VStr (U"version"), ver);
             (VStr (U"metadata_spec_version"), VStr Params.spec_version);
             (VStr (U"timestamp"), ts); (VStr (U"expiration"), ex); (VStr (U"delegations"), dl)]).

(* build_root_metadata: a defaulted expiration is computed first (clock read now_ex), then the
   defaulted timestamp inside build_delegating_metadata (clock read now_ts) *)
Definition build_root_metadata (now_ex now_ts : Z)
           (ver rkeys rth kkeys kth ts ex : pv) : res pv :=
  let ex := match ex with VNone => VStr (fmt_utc (now_ex + expiry_seconds)%Z) | _ => ex end in
  let dl := VDict [(VStr (U"root"), VDict [(VStr (U"pubkeys"), rkeys); (VStr (U"threshold"), rth)]);
                   (VStr (U"key_mgr"), VDict [(VStr (U"pubkeys"), kkeys); (VStr (U"threshold"), kth)])] in
  build_delegating_metadata now_ts now_ts (VStr (U"root")) dl ver ts ex.

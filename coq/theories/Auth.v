(* Auth.v: transcription of conda_content_trust/authentication.py (repaired tree).
   ed25519 verification and SHA-256 are Section variables.  Definitions only. *)
From CCT Require Import Prelude Hex Num Time Formats Json.
From CCT.Gen Require Params.
Open Scope N_scope.

Definition be32 (n : N) : res bytes :=
  if n <? 4294967296 then Ok [n / 16777216 mod 256; n / 65536 mod 256; n / 256 mod 256; n mod 256]
  else Err StructError.

(* RFC 4880 5.2.4 (v4): data || hashed headers || 04 ff || be32(len headers) *)
Definition frame (data hdr : bytes) : res bytes :=
  l <- be32 (N.of_nat (length hdr)) ;; Ok (data ++ hdr ++ [4; 255] ++ l).

(* Python truthiness *)
Definition py_truth (v : pv) : bool :=
  match v with
  | VNone => false | VBool b => b | VInt z => negb (Z.eqb z 0)
  | VFloat t => match float_view t with FInt z => negb (Z.eqb z 0) | _ => true end
  | VStr s => negb (Nat.eqb (length s) 0)
  | VBytes b | VBytearray b => negb (Nat.eqb (length b) 0)
  | VList l | VTuple l | VSet l => negb (Nat.eqb (length l) 0)
  | VDict m => negb (Nat.eqb (length m) 0)
  | VDelta d s us => negb (Z.eqb d 0 && Z.eqb s 0 && Z.eqb us 0)
  | _ => true
  end.

(* PublicKey.from_hex (common.py:189-198) *)
Definition pub_from_hex (v : pv) : res bytes :=
  checkformat_hex_key v ;;;
  match v with
  | VStr s => match fromhex s with
              | Some b => if Nat.eqb (length b) 32 then Ok b else Err ValueError
              | None => Err ValueError
              end
  | _ => Err TypeError
  end.

Section Auth.
  Variable ed_verify : bytes -> bytes -> bytes -> bool.   (* public key, message, signature *)
  Variable sha256 : bytes -> bytes.

  (* verify_signature (authentication.py:253-298) *)
  Definition verify_signature (sg pk data : pv) : res unit :=
    match pk with
    | VPub k =>
        if negb (is_hex_signature sg) then Err TypeError else
        match data with
        | VBytes d =>
            match sg with
            | VStr s => match fromhex s with
                        | Some sb => if ed_verify k d sb then Ok tt else Err InvalidSignature
                        | None => Err ValueError
                        end
            | _ => Err TypeError
            end
        | _ => Err TypeError
        end
    | _ => Err TypeError
    end.

  Definition data_bytes (v : pv) : res bytes :=
    match v with VBytes d | VBytearray d => Ok d | _ => Err TypeError end.

  Definition hex_bytes (v : pv) : res bytes :=
    match v with
    | VStr s => match fromhex s with Some b => Ok b | None => Err ValueError end
    | _ => Err TypeError
    end.

  (* verify_gpg_signature (authentication.py:467-541) *)
  Definition verify_gpg_signature (sg kv data : pv) : res unit :=
    checkformat_gpg_signature sg ;;;
    checkformat_hex_key kv ;;;
    checkformat_byteslike data ;;;
    k <- pub_from_hex kv ;;
    oh <- subscript sg (U"other_headers") ;;
    hdr <- hex_bytes oh ;;
    d <- data_bytes data ;;
    msg <- frame d hdr ;;
    sv <- subscript sg (U"signature") ;;
    sb <- hex_bytes sv ;;
    if ed_verify k (sha256 msg) sb then Ok tt else Err InvalidSignature.

  (* one iteration of the loop of verify_signable: does this entry count? *)
  Definition entry_counts (gpg : bool) (K : list pv) (data : bytes) (kv : pv * pv) : res bool :=
    let (k, v) := kv in
    if negb (is_hex_key k) then Ok false else
    if gpg && negb (is_gpg_signature v) then Ok false else
    if negb (existsb (key_is (key_text k)) K) then Ok false else
    if negb gpg then
      if negb (is_signature v) then Ok false else
      pk <- pub_from_hex k ;;
      sg <- subscript v (U"signature") ;;
      match verify_signature sg (VPub pk) (VBytes data) with
      | Ok _ => Ok true
      | Err InvalidSignature => Ok false
      | Err e => Err e
      | Unmodelled => Unmodelled
      end
    else
      match verify_gpg_signature v k (VBytes data) with
      | Ok _ => Ok true
      | Err InvalidSignature => Ok false
      | Err e => Err e
      | Unmodelled => Unmodelled
      end.

  Fixpoint count_m {A} (f : A -> res bool) (l : list A) : res nat :=
    match l with
    | [] => Ok 0%nat
    | x :: r => b <- f x ;; n <- count_m f r ;; Ok (if (b : bool) then S n else n)
    end.

  Definition threshold_value (t : pv) : option Z :=
    match t with VInt z => Some z | VBool b => Some (if b then 1 else 0)%Z | _ => None end.

  (* verify_signable (authentication.py:301-464) *)
  Definition verify_signable (s K t gpg : pv) : res unit :=
    if negb (is_signable s) then Err TypeError else
    match K with
    | VList kl =>
        if negb (forallb is_hex_key kl) then Err TypeError else
        match threshold_value t with
        | Some tz =>
            if (tz <=? 0)%Z then Err TypeError else
            sd <- subscript s (U"signed") ;;
            data <- canonserialize sd ;;
            sigs <- subscript s (U"signatures") ;;
            match sigs with
            | VDict sm =>
                good <- count_m (entry_counts (py_truth gpg) kl data) sm ;;
                if (Z.of_nat good <? tz)%Z then Err SignatureError else Ok tt
            | _ => Err TypeError
            end
        | None => Err TypeError
        end
    | _ => Err TypeError
    end.

  (* gpg not in [True, False] *)
  Definition gpg_flag_ok (g : pv) : bool := py_eq_int g 1 || py_eq_int g 0.

  Definition signed_only (u : pv) : res pv :=
    sd <- subscript u (U"signed") ;;
    Ok (VDict [(VStr (U"signatures"), VDict []); (VStr (U"signed"), sd)]).

  (* x != "..." for a value x and a str *)
  Definition str_ne (v : pv) (s : ustr) : bool := negb (key_is s v).

  (* verify_delegation (authentication.py:142-244), with the repaired type check *)
  Definition verify_delegation (name u t gpg : pv) : res unit :=
    match name with
    | VStr nm =>
        if negb (gpg_flag_ok gpg) then Err TypeError else
        checkformat_delegating_metadata t ;;;
        checkformat_signable u ;;;
        so <- signed_only u ;;
        (match checkformat_delegating_metadata so with
         | Ok _ =>
             sd <- subscript u (U"signed") ;;
             ty <- subscript sd (U"type") ;;
             if str_ne ty nm then Err MetadataVerificationError else Ok tt
         | Err TypeError | Err ValueError => Ok tt
         | Err e => Err e
         | Unmodelled => Unmodelled
         end) ;;;
        ts <- subscript t (U"signed") ;;
        dl <- subscript ts (U"delegations") ;;
        isin <- py_in_str nm dl ;;
        if negb isin then Err UnknownRoleError else
        d <- subscript dl nm ;;
        keys <- subscript d (U"pubkeys") ;;
        th <- subscript d (U"threshold") ;;
        verify_signable u keys th gpg
    | _ => Err TypeError
    end.

  (* verify_root (authentication.py:40-111), with the repaired delegation lookups and successor test *)
  Definition verify_root (t u : pv) : res unit :=
    checkformat_delegating_metadata t ;;;
    checkformat_delegating_metadata u ;;;
    ts <- subscript t (U"signed") ;;
    us <- subscript u (U"signed") ;;
    tty <- subscript ts (U"type") ;;
    uty <- subscript us (U"type") ;;
    if str_ne tty (U"root") || str_ne uty (U"root") then Err ValueError else
    tdl <- subscript ts (U"delegations") ;;
    udl <- subscript us (U"delegations") ;;
    tin <- py_in_str (U"root") tdl ;;
    if negb tin then Err ValueError else
    uin <- py_in_str (U"root") udl ;;
    if negb uin then Err ValueError else
    re <- subscript tdl (U"root") ;;
    th <- subscript re (U"threshold") ;;
    keys <- subscript re (U"pubkeys") ;;
    nre <- subscript udl (U"root") ;;
    nth <- subscript nre (U"threshold") ;;
    nkeys <- subscript nre (U"pubkeys") ;;
    tv <- subscript ts (U"version") ;;
    uv <- subscript us (U"version") ;;
    match py_int tv with
    | Ok (IntIs tz _) =>
        if negb (py_eq_int uv (tz + 1)) then Err MetadataVerificationError else
        verify_signable u keys th (VBool true) ;;;
        verify_signable u nkeys nth (VBool true)
    | Err e => Err e
    | Unmodelled => Unmodelled
    end.
End Auth.

(* Cli.v: the command-line layer (cli.py, __main__.py) at value level: files are already loaded
   (None = the file could not be read or parsed).  Definitions only. *)
From CCT Require Import Prelude Hex Num Time Formats Json JsonParse Auth Signing.
From CCT.Gen Require Params Entry UnicodeSpace.
Open Scope N_scope.

Inductive cli_out :=
 | Exit (code : Z) (success_line : bool)    (* the subcommand function returned code (None is 0) *)
 | Crash                                    (* an exception left the function: traceback, status 1 *)
 | CliUnmodelled.

(* CCT_Error and its subclasses: what the two try blocks catch *)
Definition is_cct (e : exn) : bool :=
  match e with SignatureError | MetadataVerificationError | UnknownRoleError => true | _ => false end.

(* the failure report prints the declared type: on a UTF-8 standard output (what the harness gives the processes)
   a lone surrogate cannot be encoded and print raises UnicodeEncodeError *)
Definition utf8_encodable (v : pv) : bool :=
  match v with VStr s => forallb (fun c => negb ((55296 <=? c) && (c <=? 57343))) s | _ => true end.

Definition code_root : Z := match Params.verify_exit_codes with Some [(_, _, c); _] => c | _ => 0%Z end.
Definition code_other : Z := match Params.verify_exit_codes with Some [_; (_, _, c)] => c | _ => 0%Z end.

Section Cli.
  Variable ed_verify : bytes -> bytes -> bytes -> bool.
  Variable ed_pub : bytes -> bytes.
  Variable ed_sign : bytes -> bytes -> bytes.
  Variable sha256 : bytes -> bytes.

  (* cli_verify_metadata (cli.py:217-280): the untrusted file is loaded first, then the trusted one *)
  Definition cli_verify_metadata (t u : option pv) : cli_out :=
    match u, t with
    | Some u, Some t =>
        match (sd <- subscript u (U"signed") ;; subscript sd (U"type")) with
        | Ok ty =>
            if key_is (U"root") ty then
              match verify_root ed_verify sha256 t u with
              | Ok _ => Exit 0 true
              | Err e => if is_cct e then Exit code_root false else Crash
              | Unmodelled => CliUnmodelled
              end
            else
              match verify_delegation ed_verify sha256 ty u t (VBool false) with
              | Ok _ => Exit 0 true
              | Err e => if is_cct e && is_str ty && utf8_encodable ty then Exit code_other false else Crash
              | Unmodelled => CliUnmodelled
              end
        | Err _ => Crash
        | Unmodelled => CliUnmodelled
        end
    | _, _ => Crash
    end.

  (* the same from the two files as they are on disk (None = no such file): load_metadata_from_file is json.load on the binary file
     (JsonParse.load_file: encoding guess, byte-order mark, UTF-8 with surrogatepass, the parser); any failure to load is an exception *)
  Definition loaded (f : option bytes) : option (option pv) :=
    match f with
    | None => Some None
    | Some b => match load_file b with Ok v => Some (Some v) | Err _ => Some None | Unmodelled => None end
    end.
  Definition cli_verify_metadata_files (t u : option bytes) : cli_out :=
    match loaded u, loaded t with
    | Some u', Some t' => cli_verify_metadata t' u'
    | _, _ => CliUnmodelled
    end.

  (* str.strip().lower() on the key text: Unicode whitespace stripped at both ends; lower() on the ASCII letters
     (no non-ASCII character lower-cases into the hex alphabet, so anything else is left as it is and fails the test) *)
  Definition is_py_space (c : N) : bool := existsb (N.eqb c) UnicodeSpace.py_space.
  Fixpoint lstrip (s : ustr) : ustr := match s with c :: r => if is_py_space c then lstrip r else s | [] => [] end.
  Definition strip (s : ustr) : ustr := rev_append (lstrip (rev_append (lstrip s) [])) [].
  Definition lower_ascii (s : ustr) : ustr := map (fun c => if (65 <=? c) && (c <=? 90) then c + 32 else c) s.

  Inductive sign_out := Signed (written : pv) | SignExit (code : Z) | SignCrash | SignUnmodelled.

  (* cli_sign_artifacts (cli.py:193-208): keytext = content of the key file, r = the loaded repodata *)
  Definition cli_sign_artifacts (keytext : option ustr) (r : option pv) : sign_out :=
    match keytext with
    | None => SignCrash
    | Some s =>
        let k := VStr (lower_ascii (strip s)) in
        if negb (is_hex_key k) then SignExit (match Entry.sign_abort_code with Some c => c | None => 0%Z end)
        else match r with
             | None => SignCrash
             | Some r => match sign_all_value ed_pub ed_sign r k with
                         | Ok w => Signed w          (* the function falls off its end: None, status 0 *)
                         | Err _ => SignCrash
                         | Unmodelled => SignUnmodelled
                         end
             end
    end.

  (* process exit status *)
  Definition status_of_code (c : Z) : Z := c mod 256.
  Definition status (o : cli_out) : option Z :=
    match o with Exit c _ => Some (status_of_code c) | Crash => Some 1%Z | CliUnmodelled => None end.
  Definition sign_status (o : sign_out) : option Z :=
    match o with Signed _ => Some 0%Z | SignExit c => Some (status_of_code c) | SignCrash => Some 1%Z | SignUnmodelled => None end.
End Cli.

(* KernelRun.v: run_case with table-lookup oracles, for the kernel-path (vm_compute) cross-check
   of extraction and driver. Part of the correspondence harness. *)
From CCT Require Import Prelude Hex Sha256 Harness.
Open Scope N_scope.

Definition unhex (s : ustr) : bytes := match fromhex s with Some b => b | None => [] end.



Fixpoint tab_verify (t : list (ustr * ustr * ustr * bool)) (k m s : bytes) : bool :=
  match t with
  | [] => false
  | (k', m', s', b) :: r =>
      if ustr_eqb (unhex k') k && ustr_eqb (unhex m') m && ustr_eqb (unhex s') s then b else tab_verify r k m s
  end.
Fixpoint tab_pub (t : list (ustr * ustr)) (sd : bytes) : bytes :=
  match t with
  | [] => repeat 0 32
  | (sd', p) :: r => if ustr_eqb (unhex sd') sd then unhex p else tab_pub r sd
  end.
Fixpoint tab_sign (t : list (ustr * ustr * ustr)) (sd m : bytes) : bytes :=
  match t with
  | [] => repeat 0 64
  | (sd', m', s) :: r => if ustr_eqb (unhex sd') sd && ustr_eqb (unhex m') m then unhex s else tab_sign r sd m
  end.

Fixpoint disagreements (f : ustr -> ustr) (cases : list (ustr * ustr)) (i : nat) : list nat :=
  match cases with
  | [] => []
  | (w, o) :: r => if ustr_eqb (f w) o then disagreements f r (S i) else i :: disagreements f r (S i)
  end.

Definition kernel_disagreements vt pt st (cases : list (ustr * ustr)) : list nat :=
  disagreements (run_case (tab_verify vt) (tab_pub pt) (tab_sign st) sha256) cases 0.

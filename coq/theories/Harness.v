(* Harness.v: dispatch from a decoded case (function name, arguments) to the model.
   Part of the correspondence harness. *)
From Coq Require Import String.
From CCT Require Import Prelude Hex Num Time Formats Json JsonParse Auth Signing Construct Sha256 Wire Keys Gpg Cli Ed25519 PySrc.
From CCT.Gen Require Source.
Open Scope N_scope.

Definition unit_res (r : res unit) : res pv := x <- r ;; Ok VNone.

(* bodies of entry functions translated on this run, by name (absent when the tree's function is outside the subset) *)
Definition entry_body (n : string) : option fundef :=
  option_map snd (find (fun p => String.eqb (fst p) n) Source.entry_bodies).
Definition bool_res (b : bool) : res pv := Ok (VBool b).

Definition cls_of (v : pv) : option kclass :=
  match v with
  | VStr s => if ustr_eqb s (U"pub") then Some KPub else if ustr_eqb s (U"priv") then Some KPriv else None
  | _ => None
  end.

Section Run.
  Variable ed_verify : bytes -> bytes -> bytes -> bool.
  Variable ed_pub : bytes -> bytes.
  Variable ed_sign : bytes -> bytes -> bytes.
  Variable sha : bytes -> bytes.     (* SHA-256 used by the verifiers: Sha256.sha256 in the kernel path, a checked table in the bulk path *)

  Definition call (fn : ustr) (args : list pv) : res pv :=
    let is := ustr_eqb fn in
    match args with
    | [a] =>
        if is (U"checkformat_hex_string") then unit_res (checkformat_hex_string a)
        else if is (U"is_hex_string") then bool_res (is_hex_string a)
        else if is (U"is_hex_signature") then bool_res (is_hex_signature a)
        else if is (U"checkformat_hex_key") then unit_res (checkformat_hex_key a)
        else if is (U"is_hex_key") then bool_res (is_hex_key a)
        else if is (U"is_signable") then bool_res (is_signable a)
        else if is (U"checkformat_signable") then unit_res (checkformat_signable a)
        else if is (U"checkformat_byteslike") then unit_res (checkformat_byteslike a)
        else if is (U"checkformat_natural_int") then unit_res (checkformat_natural_int a)
        else if is (U"checkformat_string") then unit_res (checkformat_string a)
        else if is (U"checkformat_expiration_distance") then unit_res (checkformat_expiration_distance a)
        else if is (U"checkformat_list_of_hex_keys") then unit_res (checkformat_list_of_hex_keys a)
        else if is (U"checkformat_utc_isoformat") then unit_res (checkformat_utc_isoformat a)
        else if is (U"checkformat_gpg_fingerprint") then unit_res (checkformat_gpg_fingerprint a)
        else if is (U"is_gpg_fingerprint") then bool_res (is_gpg_fingerprint a)
        else if is (U"checkformat_gpg_signature") then unit_res (checkformat_gpg_signature a)
        else if is (U"is_gpg_signature") then bool_res (is_gpg_signature a)
        else if is (U"checkformat_signature") then unit_res (checkformat_signature a)
        else if is (U"is_signature") then bool_res (is_signature a)
        else if is (U"checkformat_any_signature") then unit_res (checkformat_any_signature a)
        else if is (U"checkformat_delegation") then unit_res (checkformat_delegation a)
        else if is (U"checkformat_delegations") then unit_res (checkformat_delegations a)
        else if is (U"checkformat_delegating_metadata") then unit_res (checkformat_delegating_metadata a)
        else if is (U"checkformat_key") then unit_res (checkformat_key a)
        else if is (U"canonserialize") then (b <- canonserialize a ;; Ok (VBytes b))
        else if is (U"json_loads") then
          match a with
          | VStr t => match parse t with Some v => Ok v | None => Err JSONDecodeError end
          | _ => Unmodelled
          end
        else if is (U"canon") then Ok (canon a)
        else if is (U"frame") then
          match a with
          | VList [VBytes d; VBytes h] => (m <- frame d h ;; Ok (VBytes m))
          | _ => Unmodelled end
        else if is (U"sha256") then match a with VBytes b => Ok (VBytes (sha256 b)) | _ => Unmodelled end
        else if is (U"wrap_as_signable") then wrap_as_signable a
        else if is (U"public_key_of") then public_key_of ed_pub a
        else if is (U"keyfile_roundtrip") then
          match a with
          | VBytes sd =>
              files <- write_keyfiles ed_pub (VPriv sd) ;;
              ks <- load_keyfiles files ;;
              e1 <- key_is_equivalent_to KPriv (VPriv sd) (fst ks) ;;
              e2 <- key_is_equivalent_to KPub (VPub (ed_pub sd)) (snd ks) ;;
              Ok (VList [VBytes (fst files); VBytes (snd files); fst ks; snd ks; VBool e1; VBool e2])
          | _ => Unmodelled
          end
        else if is (U"float_view") then
          match a with
          | VFloat t => match float_view t with
                        | FNan => Ok (VStr (U"nan")) | FInf n => Ok (VTuple [VStr (U"inf"); VBool n])
                        | FInt z => Ok (VTuple [VStr (U"int"); VInt z])
                        | FFrac z => Ok (VTuple [VStr (U"frac"); VInt z])
                        | FBad => Unmodelled end
          | _ => Unmodelled end
        else Unmodelled
    | [a; b] =>
        if is (U"verify_root") then unit_res (verify_root ed_verify sha a b)
        (* the body of verify_root as translated on this run, interpreted; verify_signable answered by the model *)
        else if is (U"src_verify_root") then
          match entry_body "verify_root"%string with None => Unmodelled | Some d0 =>
          run_body (fun f args => if String.eqb f "verify_signable"%string
                                  then match args with [s0; k0; t0; g0] => unit_res (verify_signable ed_verify sha s0 k0 t0 g0) | _ => Err TypeError end
                                  else run_prog Source.program f args) d0 [a; b] end
        (* the text of common.py as translated on this run (Gen/Source.v), interpreted *)
        else if is (U"src_run") then match a with VStr name => run_prog Source.program (string_of_ustr name) [b] | _ => Unmodelled end
        else if is (U"root_history") then
          match b with
          | VList offers =>
              let step (st : pv * list pv) (u : pv) :=
                let (t, vs) := st in
                if is_ok (verify_root ed_verify sha t u) then (u, VBool true :: vs) else (t, VBool false :: vs) in
              let (t, vs) := fold_left step offers (a, []) in
              fb <- canonserialize t ;; Ok (VList [VList (rev_append vs []); VBytes fb])
          | _ => Unmodelled
          end
        else if is (U"persist_history") then
          match b with
          | VList ops =>
              (fix go (ops : list pv) (mem : pv) (file : option bytes) (outs : list pv) : res pv :=
                 match ops with
                 | [] => fb <- canonserialize mem ;;
                         Ok (VList (rev_append outs [match file with Some f => VBytes f | None => VNone end; VBytes fb]))
                 | VList (VStr op :: args) :: r =>
                     if ustr_eqb op (U"write") then (f <- canonserialize mem ;; go r mem (Some f) outs)
                     else if ustr_eqb op (U"load") then
                       match file with
                       | Some f => v <- load_file f ;; go r v file outs
                       | None => Err OSErr
                       end
                     else if ustr_eqb op (U"replace") then
                       match args with [v] => go r v file outs | _ => Unmodelled end
                     else if ustr_eqb op (U"trywrite") then
                       (* an attempt to store another value that may fail to serialize: a failure leaves the file as it was *)
                       match args with
                       | [v] => match canonserialize v with
                                | Ok f => go r mem (Some f) outs
                                | Err _ => go r mem file outs
                                | Unmodelled => Unmodelled
                                end
                       | _ => Unmodelled
                       end
                     else if ustr_eqb op (U"prefill") then
                       match args with [VBytes f] => go r mem (Some f) outs | _ => Unmodelled end
                     else if ustr_eqb op (U"sign") then
                       match args with
                       | [VBytes sd] => mem' <- sign_signable ed_pub ed_sign mem (VPriv sd) ;; go r mem' file outs
                       | _ => Unmodelled
                       end
                     else if ustr_eqb op (U"verify") then
                       match args with
                       | [K; t; g] => match verify_signable ed_verify sha mem K t g with
                                      | Unmodelled => Unmodelled
                                      | o => go r mem file (VBool (is_ok o) :: outs)
                                      end
                       | _ => Unmodelled
                       end
                     else if ustr_eqb op (U"vroot") then
                       match args with
                       | [T] => match verify_root ed_verify sha T mem with
                                | Unmodelled => Unmodelled
                                | o => go r mem file (VBool (is_ok o) :: outs)
                                end
                       | _ => Unmodelled
                       end
                     else if ustr_eqb op (U"vdeleg") then
                       match args with
                       | [nm; T; g] => match verify_delegation ed_verify sha nm mem T g with
                                       | Unmodelled => Unmodelled
                                       | o => go r mem file (VBool (is_ok o) :: outs)
                                       end
                       | _ => Unmodelled
                       end
                     else Unmodelled
                 | _ => Unmodelled
                 end) ops a None []
          | _ => Unmodelled
          end
        else if is (U"serialize_and_sign") then serialize_and_sign ed_sign a b
        else if is (U"sign_signable") then sign_signable ed_pub ed_sign a b
        else if is (U"sign_sequence") then
          match b with
          | VList seeds =>
              e0 <- wrap_as_signable a ;;
              (fix go (l : list pv) (e : pv) : res pv :=
                 match l with
                 | [] => Ok e
                 | VBytes sd :: r => e' <- sign_signable ed_pub ed_sign e (VPriv sd) ;; go r e'
                 | _ => Unmodelled
                 end) seeds e0
          | _ => Unmodelled
          end
        else if is (U"sign_all_value") then sign_all_value ed_pub ed_sign a b
        else if is (U"key_from_bytes") then match cls_of a with Some c => key_from_bytes c b | None => Unmodelled end
        else if is (U"key_to_bytes") then match cls_of a with Some c => key_to_bytes c b | None => Unmodelled end
        else if is (U"key_to_hex") then match cls_of a with Some c => key_to_hex c b | None => Unmodelled end
        else if is (U"key_from_hex") then match cls_of a with Some c => key_from_hex c b | None => Unmodelled end
        else if is (U"sign_raw") then match a, b with VBytes sd, VBytes m => Ok (VBytes (ed_sign sd m)) | _, _ => Unmodelled end
        else if is (U"cli_verify_metadata") then
          let o (v : pv) : option (option pv) := match v with VList [] => Some None | VList [x] => Some (Some x) | _ => None end in
          match o a, o b with
          | Some t, Some u =>
              match cli_verify_metadata ed_verify sha t u with
              | Exit c s => Ok (VList [VInt c; VBool s])
              | Crash => Ok (VStr (U"crash"))
              | CliUnmodelled => Unmodelled
              end
          | _, _ => Unmodelled
          end
        else if is (U"cli_verify_metadata_files") then
          (* the two files as raw bytes ([] = no such file): loading is part of the model *)
          let o (v : pv) : option (option bytes) := match v with VList [] => Some None | VList [VBytes x] => Some (Some x) | _ => None end in
          match o a, o b with
          | Some t, Some u =>
              match cli_verify_metadata_files ed_verify sha t u with
              | Exit c s => Ok (VList [VInt c; VBool s])
              | Crash => Ok (VStr (U"crash"))
              | CliUnmodelled => Unmodelled
              end
          | _, _ => Unmodelled
          end
        else if is (U"cli_sign_artifacts") then
          let o (v : pv) : option (option pv) := match v with VList [] => Some None | VList [x] => Some (Some x) | _ => None end in
          match o a, o b with
          | Some kt, Some r =>
              match (match kt with None => Some None | Some (VStr s) => Some (Some s) | _ => None end) with
              | Some kt' =>
                  match cli_sign_artifacts ed_pub ed_sign kt' r with
                  | Signed w => Ok (VList [VStr (U"signed"); w])
                  | SignExit c => Ok (VInt c)
                  | SignCrash => Ok (VStr (U"crash"))
                  | SignUnmodelled => Unmodelled
                  end
              | None => Unmodelled
              end
          | _, _ => Unmodelled
          end
        else if is (U"pub_of_seed") then match a with VBytes sd => Ok (VBytes (ed_pub sd)) | _ => Unmodelled end
        (* the Gallina RFC 8032 specification itself (no oracle table) *)
        else if is (U"rfc8032_pub") then match a with VBytes sd => Ok (VBytes (Ed25519.public_key sd)) | _ => Unmodelled end
        else if is (U"rfc8032_sign") then match a, b with VBytes sd, VBytes m => Ok (VBytes (Ed25519.sign sd m)) | _, _ => Unmodelled end
        else if is (U"sha512") then match a with VBytes m => Ok (VBytes (Ed25519.sha512 m)) | _ => Unmodelled end
        else Unmodelled
    | [a; VList seeds1; c; VList seeds2] =>
        (* wrap, sign by seeds1, replace the payload (an edit after signing), sign by seeds2 *)
        if is (U"sign_edit_sign") then
          let go := (fix go (l : list pv) (e : pv) : res pv :=
                       match l with
                       | [] => Ok e
                       | VBytes sd :: r => e' <- sign_signable ed_pub ed_sign e (VPriv sd) ;; go r e'
                       | _ => Unmodelled
                       end) in
          e0 <- wrap_as_signable a ;;
          e1 <- go seeds1 e0 ;;
          match e1 with
          | VDict m => go seeds2 (VDict (dset m (U"signed") c))
          | _ => Unmodelled
          end
        else if is (U"verify_signable") then unit_res (verify_signable ed_verify sha a (VList seeds1) c (VList seeds2))
        else if is (U"verify_delegation") then unit_res (verify_delegation ed_verify sha a (VList seeds1) c (VList seeds2))
        else Unmodelled
    | [a; b; c] =>
        if is (U"rfc8032_verify") then match a, b, c with VBytes pk, VBytes m, VBytes sg => Ok (VBool (Ed25519.verify pk m sg)) | _, _, _ => Unmodelled end else
        if is (U"key_is_equivalent_to") then
          match cls_of a with Some k => (r <- key_is_equivalent_to k b c ;; Ok (VBool r)) | None => Unmodelled end
        else if is (U"verify_signature") then unit_res (verify_signature ed_verify a b c)
        else if is (U"verify_gpg_signature") then unit_res (verify_gpg_signature ed_verify sha a b c)
        else Unmodelled
    | [a; b; c; d] =>
        if is (U"gpg_transcribe") then sign_root_metadata_dict_via_gpg a b c d
        else if is (U"sign_via_gpg") then sign_via_gpg a b c (py_truth d)
        else if is (U"verify_signable") then unit_res (verify_signable ed_verify sha a b c d)
        else if is (U"verify_delegation") then unit_res (verify_delegation ed_verify sha a b c d)
        (* the body of verify_delegation as translated on this run, interpreted; its external callee verify_signable answered by the model *)
        else if is (U"src_verify_delegation") then
          match entry_body "verify_delegation"%string with None => Unmodelled | Some d0 =>
          run_body (fun f args => if String.eqb f "verify_signable"%string
                                  then match args with [s0; k0; t0; g0] => unit_res (verify_signable ed_verify sha s0 k0 t0 g0) | _ => Err TypeError end
                                  else run_prog Source.program f args) d0 [a; b; c; d] end
        else Unmodelled
    | [VInt n1; VInt n2; a; b; c; d; e] =>
        if is (U"build_delegating_metadata") then build_delegating_metadata n1 n2 a b c d e
        else Unmodelled
    | [VInt n1; VInt n2; a; b; c; d; e; f; g] =>
        if is (U"build_root_metadata") then build_root_metadata n1 n2 a b c d e f g
        else Unmodelled
    | _ => Unmodelled
    end.

  Definition run_case (line : list N) : list N :=
    match decode line with
    | Some (VTuple (VStr fn :: args)) => enc_res (call fn args)
    | _ => [88]       (* X: undecodable case *)
    end.
End Run.

(* Prelude: result monad, Python value universe, basic Python operations.
   Model file: definitions only (proofs live in *Facts.v / props). *)
From Coq Require Import Ascii String.
From Coq Require Export List NArith ZArith Bool.
Export Coq.Strings.String.StringSyntax.
Close Scope string_scope.
Export ListNotations.
Open Scope N_scope.

Definition cp := N.                  (* Unicode code point *)
Definition ustr := list N.           (* Python str: list of code points *)
Definition bytes := list N.          (* Python bytes: each element < 256 *)

Inductive exn :=
 | TypeError | ValueError | KeyError | AttributeError | OverflowError
 | AssertionError | UnicodeEncodeError | InvalidSignature | StructError
 | SignatureError | MetadataVerificationError | UnknownRoleError
 | ImportErr | OSErr | JSONDecodeError | SystemExitE.

Inductive res (A : Type) := Ok (a : A) | Err (e : exn) | Unmodelled.
Arguments Ok {A} a. Arguments Err {A} e. Arguments Unmodelled {A}.

Definition bind {A B} (r : res A) (f : A -> res B) : res B :=
  match r with Ok a => f a | Err e => Err e | Unmodelled => Unmodelled end.
Notation "x <- r ;; k" := (bind r (fun x => k)) (at level 61, r at next level, right associativity).
Notation "r ;;; k" := (bind r (fun _ => k)) (at level 61, right associativity).

Definition is_ok {A} (r : res A) : bool := match r with Ok _ => true | _ => false end.

(* try: f() ; return True / except (TypeError, ValueError): return False *)
Definition catch_tv {A} (r : res A) : res bool :=
  match r with
  | Ok _ => Ok true
  | Err TypeError | Err ValueError => Ok false
  | Err e => Err e
  | Unmodelled => Unmodelled
  end.

Inductive pv :=
 | VNone | VBool (b : bool) | VInt (z : Z)
 | VFloat (r : ustr)                  (* JSON token of the float: repr, or NaN / Infinity / -Infinity *)
 | VStr (s : ustr) | VBytes (b : bytes) | VBytearray (b : bytes)
 | VList (l : list pv) | VTuple (l : list pv) | VSet (l : list pv)
 | VDict (m : list (pv * pv))         (* insertion ordered *)
 | VPub (k : bytes) | VPriv (seed : bytes)
 | VDelta (d s us : Z)
 | VObj (tag : N).

(* ASCII helpers *)

Fixpoint ustr_of_string (s : String.string) : ustr :=
  match s with String.EmptyString => [] | String.String c r => Ascii.N_of_ascii c :: ustr_of_string r end.
Arguments ustr_of_string : simpl never.
Notation "'U' s" := (ustr_of_string s%string) (at level 1, only parsing).

Fixpoint ustr_eqb (a b : ustr) : bool :=
  match a, b with
  | [], [] => true
  | x :: a', y :: b' => N.eqb x y && ustr_eqb a' b'
  | _, _ => false
  end.

(* dictionary access by str key *)
Definition key_is (k : ustr) (x : pv) : bool :=
  match x with VStr s => ustr_eqb s k | _ => false end.

Fixpoint dget (m : list (pv * pv)) (k : ustr) : option pv :=
  match m with
  | [] => None
  | (x, v) :: m' => if key_is k x then Some v else dget m' k
  end.

(* d[k] = v : replace in place if present, else append *)
Fixpoint dset (m : list (pv * pv)) (k : ustr) (v : pv) : list (pv * pv) :=
  match m with
  | [] => [(VStr k, v)]
  | (x, y) :: r => if key_is k x then (x, v) :: r else (x, y) :: dset r k v
  end.

Definition dhas (m : list (pv * pv)) (k : ustr) : bool :=
  match dget m k with Some _ => true | None => false end.

(* set(d) == {a, b} for a dict with pairwise distinct keys *)
Definition keys_are2 (m : list (pv * pv)) (a b : ustr) : bool :=
  match m with
  | [(x, _); (y, _)] => (key_is a x && key_is b y) || (key_is b x && key_is a y)
  | _ => false
  end.

(* x["k"] *)
Definition subscript (v : pv) (k : ustr) : res pv :=
  match v with
  | VDict m => match dget m k with Some x => Ok x | None => Err KeyError end
  | _ => Err TypeError
  end.

(* substring test for  "k" in some_str *)
Fixpoint prefixb (p s : ustr) : bool :=
  match p, s with
  | [], _ => true
  | x :: p', y :: s' => N.eqb x y && prefixb p' s'
  | _ :: _, [] => false
  end.
Fixpoint substrb (p s : ustr) : bool :=
  prefixb p s || match s with [] => false | _ :: s' => substrb p s' end.

(* "k" in v *)
Definition py_in_str (k : ustr) (v : pv) : res bool :=
  match v with
  | VDict m => Ok (dhas m k)
  | VList l | VTuple l | VSet l => Ok (existsb (key_is k) l)
  | VStr s => Ok (substrb k s)
  | _ => Err TypeError
  end.

(* len(v) *)
Definition py_len (v : pv) : res nat :=
  match v with
  | VStr s => Ok (length s)
  | VBytes b | VBytearray b => Ok (length b)
  | VList l | VTuple l | VSet l => Ok (length l)
  | VDict m => Ok (length m)
  | _ => Err TypeError
  end.

Definition is_str (v : pv) : bool := match v with VStr _ => true | _ => false end.
Definition is_dict (v : pv) : bool := match v with VDict _ => true | _ => false end.
Definition is_list (v : pv) : bool := match v with VList _ => true | _ => false end.

(* type(v) in SUPPORTED_SERIALIZABLE_TYPES, as a tag list regenerated from the source *)
Inductive tytag := TyDict | TyList | TyTuple | TyStr | TyInt | TyFloat | TyBool | TyNone
                 | TyBytes | TySet.
Definition tytag_eqb (a b : tytag) : bool :=
  match a, b with
  | TyDict, TyDict | TyList, TyList | TyTuple, TyTuple | TyStr, TyStr | TyInt, TyInt
  | TyFloat, TyFloat | TyBool, TyBool | TyNone, TyNone | TyBytes, TyBytes | TySet, TySet => true
  | _, _ => false
  end.
Definition type_tag (v : pv) : option tytag :=
  match v with
  | VDict _ => Some TyDict | VList _ => Some TyList | VTuple _ => Some TyTuple
  | VStr _ => Some TyStr | VInt _ => Some TyInt | VFloat _ => Some TyFloat
  | VBool _ => Some TyBool | VNone => Some TyNone | VBytes _ => Some TyBytes
  | VSet _ => Some TySet | _ => None
  end.
Definition type_in (v : pv) (l : list tytag) : bool :=
  match type_tag v with Some t => existsb (tytag_eqb t) l | None => false end.

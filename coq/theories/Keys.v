(* Keys.v: key objects and their conversions (common.py:167-283, 853-903; metadata_construction.py:167-205).
   A key object is VPub (32 bytes) or VPriv (32-byte seed).  Definitions only. *)
From CCT Require Import Prelude Hex Num Time Formats Json Auth Signing.
Open Scope N_scope.

Inductive kclass := KPub | KPriv.          (* the class a class method is called on *)

Definition kind_of (v : pv) : option kclass := match v with VPub _ => Some KPub | VPriv _ => Some KPriv | _ => None end.
Definition kclass_eqb (a b : option kclass) : bool :=
  match a, b with Some KPub, Some KPub | Some KPriv, Some KPriv | None, None => true | _, _ => false end.

(* cls.to_bytes(key): key.public_bytes(..) / key.private_bytes(..) *)
Definition key_to_bytes (c : kclass) (k : pv) : res pv :=
  match c, k with
  | KPub, VPub b => Ok (VBytes b)
  | KPriv, VPriv s => Ok (VBytes s)
  | _, _ => Err AttributeError
  end.

(* cls.from_bytes(b): checkformat_byteslike, then from_public_bytes / from_private_bytes
   (the former insists on bytes, the latter takes any buffer; both insist on 32 bytes) *)
Definition key_from_bytes (c : kclass) (v : pv) : res pv :=
  checkformat_byteslike v ;;;
  match c, v with
  | KPub, VBytes b => if Nat.eqb (length b) 32 then Ok (VPub b) else Err ValueError
  | KPub, _ => Err TypeError
  | KPriv, VBytes b | KPriv, VBytearray b => if Nat.eqb (length b) 32 then Ok (VPriv b) else Err ValueError
  | KPriv, _ => Err TypeError
  end.

Definition key_to_hex (c : kclass) (k : pv) : res pv :=
  b <- key_to_bytes c k ;; match b with VBytes x => Ok (VStr (hexlify x)) | _ => Err TypeError end.

Definition key_from_hex (c : kclass) (v : pv) : res pv :=
  checkformat_hex_key v ;;;
  match v with
  | VStr s => match fromhex s with
              | Some b => k <- key_from_bytes c (VBytes b) ;; checkformat_key k ;;; Ok k
              | None => Err ValueError
              end
  | _ => Err TypeError
  end.

Definition bytes_eqb (a b : pv) : bool :=
  match a, b with VBytes x, VBytes y => ustr_eqb x y | _, _ => false end.

(* cls.is_equivalent_to(k1, k2) *)
Definition key_is_equivalent_to (c : kclass) (k1 k2 : pv) : res bool :=
  checkformat_key k2 ;;;
  if negb (kclass_eqb (kind_of k1) (kind_of k2)) then Ok false else
  b1 <- key_to_bytes c k1 ;; b2 <- key_to_bytes c k2 ;; Ok (bytes_eqb b1 b2).

Section Keys.
  Variable ed_pub : bytes -> bytes.

  (* private.public_key() *)
  Definition public_key_of (k : pv) : res pv :=
    match k with VPriv s => Ok (VPub (ed_pub s)) | _ => Err AttributeError end.

  (* gen_and_write_keys with the generated pair given: the two files hold the raw key bytes *)
  Definition write_keyfiles (priv : pv) : res (bytes * bytes) :=
    match priv with
    | VPriv s => Ok (s, ed_pub s)
    | _ => Err AttributeError
    end.

  (* keyfiles_to_keys on those two files *)
  Definition load_keyfiles (files : bytes * bytes) : res (pv * pv) :=
    sk <- key_from_bytes KPriv (VBytes (fst files)) ;;
    pk <- key_from_bytes KPub (VBytes (snd files)) ;;
    Ok (sk, pk).
End Keys.

(* Hex.v: bytes.fromhex, str.isalnum / str.lower on the alphabet fromhex lets through,
   hexlify / unhexlify. Model definitions only. *)
From CCT Require Import Prelude.
Open Scope N_scope.

(* Py_ISSPACE: \t \n \v \f \r and space *)
Definition is_ws (c : N) : bool := ((9 <=? c) && (c <=? 13)) || (c =? 32).

Definition hexval (c : N) : option N :=
  if (48 <=? c) && (c <=? 57) then Some (c - 48)
  else if (97 <=? c) && (c <=? 102) then Some (c - 87)
  else if (65 <=? c) && (c <=? 70) then Some (c - 55)
  else None.

Definition is_lower_hex (c : N) : bool :=
  ((48 <=? c) && (c <=? 57)) || ((97 <=? c) && (c <=? 102)).

(* bytes.fromhex(s): ASCII whitespace is skipped between pairs only *)
Fixpoint fromhex (s : ustr) : option bytes :=
  match s with
  | [] => Some []
  | c :: r =>
      if is_ws c then fromhex r
      else match hexval c, r with
           | Some t, d :: r' =>
               match hexval d with
               | Some b => option_map (cons (16 * t + b)) (fromhex r')
               | None => None
               end
           | _, _ => None
           end
  end.

(* str.isalnum() restricted to strings over hex digits and ASCII whitespace
   (the only strings reaching it, since fromhex has accepted them) *)
Definition isalnum_hexws (s : ustr) : bool :=
  match s with [] => false | _ => forallb (fun c => negb (is_ws c)) s end.

(* str.lower() on the same alphabet *)
Definition lower_c (c : N) : N := if (65 <=? c) && (c <=? 90) then c + 32 else c.
Definition lower_hexws (s : ustr) : ustr := map lower_c s.

Definition hexdigit (n : N) : N := if n <? 10 then 48 + n else 87 + n.
Fixpoint hexlify (b : bytes) : ustr :=
  match b with
  | [] => []
  | x :: r => hexdigit (x / 16) :: hexdigit (x mod 16) :: hexlify r
  end.

(* all characters lower-case hex *)
Definition all_lower_hex (s : ustr) : bool := forallb is_lower_hex s.

(* declarative grammar: n lower-case hex characters *)
Definition lower_hex_of_len (n : nat) (s : ustr) : Prop :=
  length s = n /\ Forall (fun c => is_lower_hex c = true) s.

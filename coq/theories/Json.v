(* Json.v: canonserialize = json.dumps(obj, indent=2, sort_keys=True).encode("utf-8")
   (pure-Python encoder path of CPython 3.12: ensure_ascii, allow_nan, separators "," and ": ").
   Definitions only. *)
From CCT Require Import Prelude.
From Coq Require Import Decimal DecimalN.
Open Scope N_scope.

(* ---- decimal text of an integer (int.__repr__) *)
Fixpoint uint_to_ustr (u : Decimal.uint) : ustr :=
  match u with
  | Decimal.Nil => []
  | Decimal.D0 r => 48 :: uint_to_ustr r | Decimal.D1 r => 49 :: uint_to_ustr r
  | Decimal.D2 r => 50 :: uint_to_ustr r | Decimal.D3 r => 51 :: uint_to_ustr r
  | Decimal.D4 r => 52 :: uint_to_ustr r | Decimal.D5 r => 53 :: uint_to_ustr r
  | Decimal.D6 r => 54 :: uint_to_ustr r | Decimal.D7 r => 55 :: uint_to_ustr r
  | Decimal.D8 r => 56 :: uint_to_ustr r | Decimal.D9 r => 57 :: uint_to_ustr r
  end.
Definition dec_of_N (n : N) : ustr := uint_to_ustr (N.to_uint n).
Definition dec_of_Z (z : Z) : ustr :=
  match z with
  | Z0 => [48]
  | Zpos p => dec_of_N (Npos p)
  | Zneg p => 45 :: dec_of_N (Npos p)
  end.

(* ---- string quoting (py_encode_basestring_ascii) *)
Definition hexd (n : N) : N := if n <? 10 then 48 + n else 87 + n.
Definition u_escape (c : N) : ustr :=      (* \uXXXX, c < 0x10000 *)
  [92; 117; hexd (c / 4096 mod 16); hexd (c / 256 mod 16); hexd (c / 16 mod 16); hexd (c mod 16)].
Definition quote_char (c : N) : ustr :=
  if c =? 34 then [92; 34]
  else if c =? 92 then [92; 92]
  else if c =? 10 then [92; 110]
  else if c =? 13 then [92; 114]
  else if c =? 9 then [92; 116]
  else if c =? 8 then [92; 98]
  else if c =? 12 then [92; 102]
  else if (32 <=? c) && (c <=? 126) then [c]
  else if c <? 65536 then u_escape c
  else let v := c - 65536 in
       u_escape (55296 + v / 1024) ++ u_escape (56320 + v mod 1024).
Definition quote (s : ustr) : ustr := 34 :: flat_map quote_char s ++ [34].

(* ---- key ordering: Python str comparison = lexicographic on code points *)
Fixpoint ustr_ltb (a b : ustr) : bool :=
  match a, b with
  | [], [] => false
  | [], _ :: _ => true
  | _ :: _, [] => false
  | x :: a', y :: b' => (x <? y) || ((x =? y) && ustr_ltb a' b')
  end.
Definition ustr_leb (a b : ustr) : bool := negb (ustr_ltb b a).

Section Sort.
  Context {A : Type}.
  Fixpoint insert_kv (kv : ustr * A) (l : list (ustr * A)) : list (ustr * A) :=
    match l with
    | [] => [kv]
    | h :: t => if ustr_leb (fst kv) (fst h) then kv :: l else h :: insert_kv kv t
    end.
  Fixpoint sort_kv (l : list (ustr * A)) : list (ustr * A) :=
    match l with [] => [] | h :: t => insert_kv h (sort_kv t) end.
End Sort.

(* ---- layout *)
Definition nl (n : nat) : ustr := 10 :: repeat 32 (2 * n).
Fixpoint join_items (lvl : nat) (items : list ustr) : ustr :=   (* items separated by "," newline indent, preceded by newline indent *)
  match items with
  | [] => []
  | [x] => nl lvl ++ x
  | x :: r => nl lvl ++ x ++ [44] ++ join_items lvl r
  end.

Definition key_text (k : pv) : ustr := match k with VStr s => s | _ => [] end.

Fixpoint ser (lvl : nat) (v : pv) : res ustr :=
  match v with
  | VNone => Ok (U"null")
  | VBool true => Ok (U"true")
  | VBool false => Ok (U"false")
  | VInt z => Ok (dec_of_Z z)
  | VFloat r => Ok r
  | VStr s => Ok (quote s)
  | VList l | VTuple l =>
      match l with
      | [] => Ok (U"[]")
      | _ =>
          items <- (fix go (l : list pv) : res (list ustr) :=
                      match l with
                      | [] => Ok []
                      | x :: r => b <- ser (S lvl) x ;; bs <- go r ;; Ok (b :: bs)
                      end) l ;;
          Ok ([91] ++ join_items (S lvl) items ++ nl lvl ++ [93])
      end
  | VDict m =>
      match m with
      | [] => Ok (U"{}")
      | _ =>
          if negb (forallb (fun kv => is_str (fst kv)) m) then Unmodelled else
          kvs <- (fix go (m : list (pv * pv)) : res (list (ustr * ustr)) :=
                    match m with
                    | [] => Ok []
                    | (k, x) :: r => b <- ser (S lvl) x ;; bs <- go r ;; Ok ((key_text k, b) :: bs)
                    end) m ;;
          Ok ([123] ++ join_items (S lvl)
                         (map (fun kb => quote (fst kb) ++ [58; 32] ++ snd kb) (sort_kv kvs))
                   ++ nl lvl ++ [125])
      end
  | _ => Err TypeError
  end.

(* canonserialize: the JSON text is pure ASCII, so its UTF-8 encoding is the same code list *)
Definition canonserialize (v : pv) : res bytes := ser 0 v.

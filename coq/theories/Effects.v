(* Effects.v: effect skeletons of the in-place signing procedures and their traces (C18).
   Definitions only; the skeletons themselves are generated from the source (Gen/Skeleton.v). *)
From Coq Require Import List Bool.
Import ListNotations.

Inductive eff :=
 | EPure          (* computation on values already in memory *)
 | EValidate      (* a format check / availability check: may raise, touches nothing *)
 | ERead          (* opens a file for reading / asks an external program for data *)
 | ESign          (* computes a signature (library key or external signer) *)
 | ESerialize     (* canonical serialization of a value *)
 | EOpenTrunc     (* opens the output file for writing: truncates it *)
 | EWrite         (* writes to the output file *)
 | EClose
 | EUnknown.      (* a call the translator cannot classify *)

Inductive prog :=
 | E (e : eff)
 | Seq (l : list prog)
 | Loop (p : prog)        (* zero or more iterations *)
 | Alt (p q : prog).      (* either branch; an early return is an Alt whose branch ends the procedure *)

(* the (unbounded) set of complete effect traces of a skeleton *)
Inductive tr : prog -> list eff -> Prop :=
 | tr_E e : tr (E e) [e]
 | tr_nil : tr (Seq []) []
 | tr_cons p l t1 t2 : tr p t1 -> tr (Seq l) t2 -> tr (Seq (p :: l)) (t1 ++ t2)
 | tr_loop0 p : tr (Loop p) []
 | tr_loopS p t1 t2 : tr p t1 -> tr (Loop p) t2 -> tr (Loop p) (t1 ++ t2)
 | tr_altl p q t : tr p t -> tr (Alt p q) t
 | tr_altr p q t : tr q t -> tr (Alt p q) t.

(* a run cut short by an exception at any point is a prefix of a trace *)
Definition faulted_run (p : prog) (pre : list eff) : Prop := exists post, tr p (pre ++ post).

Definition is_output (e : eff) : bool := match e with EOpenTrunc | EWrite => true | _ => false end.
Definition is_tail (e : eff) : bool := match e with EOpenTrunc | EWrite | EClose => true | _ => false end.
Definition is_quiet (e : eff) : bool :=
  match e with EPure | EValidate | ERead | ESign | ESerialize => true | _ => false end.

(* the file on disk as a function of the effects performed so far *)
Inductive file_state := Original | Truncated | Written.
Definition file_step (s : file_state) (e : eff) : file_state :=
  match e with EOpenTrunc => Truncated | EWrite => Written | _ => s end.
Definition file_after (t : list eff) : file_state := fold_left file_step t Original.

(* all-or-nothing shape of one complete trace: a quiet phase (everything that can fail for reasons of content:
   validation, reading, every signature, the serialization) followed by an output phase of nothing but
   open / write / close *)
Definition two_phase (t : list eff) : Prop :=
  exists pre post, t = pre ++ post /\ Forall (fun e => is_quiet e = true) pre /\ Forall (fun e => is_tail e = true) post.

(* syntactic criterion, computable *)
Fixpoint quietb (p : prog) : bool :=
  match p with
  | E e => is_quiet e
  | Seq l => forallb quietb l
  | Loop q => quietb q
  | Alt a b => quietb a && quietb b
  end.
Fixpoint tailb (p : prog) : bool :=
  match p with
  | E e => is_tail e
  | Seq l => forallb tailb l
  | Loop q => tailb q
  | Alt a b => tailb a && tailb b
  end.
Fixpoint wfb (p : prog) : bool :=
  quietb p || tailb p ||
  match p with
  | Seq l =>
      (fix go (l : list prog) : bool :=
         match l with
         | [] => true
         | x :: r => if quietb x then go r else wfb x && forallb tailb r
         end) l
  | Alt a b => wfb a && wfb b
  | _ => false
  end.

(* Signing.v: value-level transcription of conda_content_trust/signing.py.
   In-place updates become functions returning the updated value. Definitions only. *)
From CCT Require Import Prelude Hex Num Time Formats Json Auth.
From CCT.Gen Require Params.
Open Scope N_scope.

Definition is_key (v : pv) : bool := match v with VPub _ | VPriv _ => true | _ => false end.
Definition checkformat_key (v : pv) : res unit := if is_key v then Ok tt else Err TypeError.

Section Signing.
  Variable ed_pub : bytes -> bytes.
  Variable ed_sign : bytes -> bytes -> bytes.

  (* serialize_and_sign (signing.py:31-58) *)
  Definition serialize_and_sign (obj key : pv) : res pv :=
    b <- canonserialize obj ;;
    match key with
    | VPriv seed => Ok (VStr (hexlify (ed_sign seed b)))
    | _ => Err AttributeError            (* no .sign on anything else *)
    end.

  (* wrap_as_signable (signing.py:61-91); deepcopy is the identity on values (aliasing: see Heap.v) *)
  Definition wrap_as_signable (obj : pv) : res pv :=
    if type_in obj Params.serializable_types
    then Ok (VDict [(VStr (U"signatures"), VDict []); (VStr (U"signed"), obj)])
    else Err TypeError.

  Definition sig_dict (sg : pv) : pv := VDict [(VStr (U"signature"), sg)].

  (* sign_signable (signing.py:94-145): returns the updated signable *)
  Definition sign_signable (s key : pv) : res pv :=
    checkformat_key key ;;;
    checkformat_signable s ;;;
    sd <- subscript s (U"signed") ;;
    sg <- serialize_and_sign sd key ;;
    match key with
    | VPriv seed =>
        let pubhex := hexlify (ed_pub seed) in
        checkformat_signature (sig_dict sg) ;;;
        sigs <- subscript s (U"signatures") ;;
        match s, sigs with
        | VDict m, VDict sm => Ok (VDict (dset m (U"signatures") (VDict (dset sm pubhex (sig_dict sg)))))
        | _, _ => Err TypeError
        end
    | _ => Err AttributeError
    end.

  (* PrivateKey.from_hex *)
  Definition priv_from_hex (v : pv) : res bytes := pub_from_hex v.

  Fixpoint sign_items (seed : bytes) (pubhex : ustr) (items : list (pv * pv)) (acc : list (pv * pv))
    : res (list (pv * pv)) :=
    match items with
    | [] => Ok acc
    | (name, md) :: r =>
        sg <- serialize_and_sign md (VPriv seed) ;;
        checkformat_signature (sig_dict sg) ;;;
        match name with
        | VStr nm => sign_items seed pubhex r (dset acc nm (VDict [(VStr pubhex, sig_dict sg)]))
        | _ => Unmodelled
        end
    end.

  (* sign_all_in_repodata (signing.py:148-213) on the loaded value; returns the value written *)
  Definition sign_all_value (r keyhex : pv) : res pv :=
    checkformat_hex_key keyhex ;;;
    seed <- priv_from_hex keyhex ;;
    let pubhex := hexlify (ed_pub seed) in
    has <- py_in_str (U"packages") r ;;
    if negb has then Err ValueError else
    match r with
    | VDict m =>
        let m1 := dset m (U"signatures") (VDict []) in
        pk <- subscript (VDict m1) (U"packages") ;;
        match pk with
        | VDict pm =>
            s1 <- sign_items seed pubhex pm [] ;;
            match dget m1 (U"packages.conda") with
            | None => Ok (VDict (dset m1 (U"signatures") (VDict s1)))
            | Some (VDict cm) =>
                s2 <- sign_items seed pubhex cm s1 ;;
                Ok (VDict (dset m1 (U"signatures") (VDict s2)))
            | Some _ => Err AttributeError
            end
        | _ => Err AttributeError          (* no .items() *)
        end
    | _ => Err TypeError                   (* item assignment on list / str / tuple *)
    end.
End Signing.

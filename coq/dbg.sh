#!/bin/bash
# usage: dbg.sh <file.v> <line>   -- print the goals after line <line>
f=$1; n=$2
tmp=$(mktemp -d /tmp/coqdbg.XXXX)
head -$n $f > $tmp/Dbg.v
echo "Show. Abort All." >> $tmp/Dbg.v
cd /verif/coq && timeout ${3:-60} coqc -Q theories CCT $tmp/Dbg.v 2>&1 | tail -${4:-40}
rm -rf $tmp

(* Extraction of the executable model for the bulk correspondence path.
   Only ExtrOcamlBasic (bool, option, unit, list, prod, sumbool, sumor to OCaml's); no Extract Constant;
   N, Z, positive, nat stay the extracted inductives. *)
Require Extraction.
Require Import ExtrOcamlBasic.
From CCT Require Import Harness.
Set Extraction Output Directory ".".
Extraction "model.ml" Harness.run_case.

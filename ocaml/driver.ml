(* Driver for the extracted model: line-oriented I/O, oracle tables for ed25519.
   Input lines:  V <key hex> <msg hex> <sig hex> <0|1>   verification oracle entry
                 P <seed hex> <pub hex>                  public-key oracle entry
                 S <seed hex> <msg hex> <sig hex>        signing oracle entry
                 H <msg hex> <digest hex>                SHA-256 table entry (Gallina Sha256 is used in the kernel path)
                 C <id> <wire case>                      run a case
   Output lines: R <id> <wire outcome>
                 M <id> V|P|S <hex args...>              oracle miss while running case <id>
   A miss returns false / 32 or 64 zero bytes; the harness fills the table and reruns the case. *)
open Model

let rec pos_of_int i =
  if i = 1 then XH else if i land 1 = 1 then XI (pos_of_int (i lsr 1)) else XO (pos_of_int (i lsr 1))
let n_of_int i = if i = 0 then N0 else Npos (pos_of_int i)
let rec int_of_pos = function XH -> 1 | XO p -> 2 * int_of_pos p | XI p -> (2 * int_of_pos p) + 1
let int_of_n = function N0 -> 0 | Npos p -> int_of_pos p

let explode s =
  let r = ref [] in
  for i = String.length s - 1 downto 0 do r := n_of_int (Char.code s.[i]) :: !r done; !r
let implode l =
  let b = Buffer.create 64 in
  List.iter (fun n -> Buffer.add_char b (Char.chr ((int_of_n n) land 255))) l; Buffer.contents b

let hex_of_string s =
  let b = Buffer.create (2 * String.length s) in
  String.iter (fun c -> Buffer.add_string b (Printf.sprintf "%02x" (Char.code c))) s; Buffer.contents b
let string_of_hex h =
  String.init (String.length h / 2) (fun i -> Char.chr (int_of_string ("0x" ^ String.sub h (2 * i) 2)))

let vtab : (Stdlib.String.t * Stdlib.String.t * Stdlib.String.t, bool) Hashtbl.t = Hashtbl.create 1024
let ptab : (Stdlib.String.t, Stdlib.String.t) Hashtbl.t = Hashtbl.create 64
let stab : (Stdlib.String.t * Stdlib.String.t, Stdlib.String.t) Hashtbl.t = Hashtbl.create 1024
let htab : (Stdlib.String.t, Stdlib.String.t) Hashtbl.t = Hashtbl.create 1024
let cur = ref ""
let missed : (Stdlib.String.t, unit) Hashtbl.t = Hashtbl.create 16
let miss s = if not (Hashtbl.mem missed s) then (Hashtbl.add missed s (); print_string ("M " ^ !cur ^ " " ^ s ^ "\n"))

let ed_verify k m s =
  let k = implode k and m = implode m and s = implode s in
  match Hashtbl.find_opt vtab (k, m, s) with
  | Some b -> b
  | None -> miss ("V " ^ hex_of_string k ^ " " ^ hex_of_string m ^ " " ^ hex_of_string s); false
let ed_pub seed =
  let sd = implode seed in
  match Hashtbl.find_opt ptab sd with
  | Some p -> explode p
  | None -> miss ("P " ^ hex_of_string sd); explode (String.make 32 '\000')
let ed_sign seed m =
  let sd = implode seed and m = implode m in
  match Hashtbl.find_opt stab (sd, m) with
  | Some s -> explode s
  | None -> miss ("S " ^ hex_of_string sd ^ " " ^ hex_of_string m); explode (String.make 64 '\000')

let sha m =
  let m = implode m in
  match Hashtbl.find_opt htab m with
  | Some d -> explode d
  | None -> miss ("H " ^ hex_of_string m); explode (String.make 32 '\000')

let () =
  try
    while true do
      let line = input_line stdin in
      match String.split_on_char ' ' line with
      | [ "V"; k; m; s; b ] -> Hashtbl.replace vtab (string_of_hex k, string_of_hex m, string_of_hex s) (b = "1")
      | [ "P"; sd; p ] -> Hashtbl.replace ptab (string_of_hex sd) (string_of_hex p)
      | [ "H"; m; d ] -> Hashtbl.replace htab (string_of_hex m) (string_of_hex d)
      | [ "S"; sd; m; s ] -> Hashtbl.replace stab (string_of_hex sd, string_of_hex m) (string_of_hex s)
      | "C" :: id :: _ ->
          cur := id;
          Hashtbl.reset missed;
          let off = 3 + String.length id in
          let w = String.sub line off (String.length line - off) in
          let out = run_case ed_verify ed_pub ed_sign sha (explode w) in
          print_string ("R " ^ id ^ " " ^ implode out ^ "\n"); flush stdout
      | _ -> print_string "? bad line\n"
    done
  with End_of_file -> ()
